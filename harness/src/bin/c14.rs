//! C14: the scaled value a sketch reports is the one it was created with.
//!
//! Stream 3 (`case … manifests`): the consumers "manifests, selection" of the reported value.
//!   mrow <k> <scaled> <num>          a DNA sketch created with these values, in a signature named r<i>;
//!                                    answer: the scaled value its manifest record reports
//!   msel  <k|-> <num|-> <scaled|->   Manifest::select on the Record::from_sig rows -> retained row indices
//!   mcsel <k|-> <num|-> <scaled|->   Collection::from_sigs(..).select -> retained row indices
//!   mload <k|-> <num|-> <scaled|->   Collection::select, then sig_for_dataset(i).select per surviving row:
//!                                    `<row>:<scaled the delivered sketch reports>` (`<row>:none` if nothing is delivered)
//!
//! Stream 4 (`case … conversions-of-sketches`): the derived sketches — whatever is made FROM a sketch
//! created at s must report s as well.
//!   conv <route> <s> <num>     a sketch created at scaled s with size bound num (and one hash), pushed
//!                              through <route>; answer: the scaled value the derived sketch reports
//!   convx <route> <s> <num>    same, answer `mh=<max_hash> num=<num>` of the derived sketch
//!   convmh <route> <max_hash>  same for a sketch LOADED with an arbitrary max_hash (no scaled value it
//!                              was "created at"): `mh=<max_hash> scaled=<scaled>` of the derived sketch
//!   routes (v… starts from a KmerMinHash, t… from a KmerMinHashBTree):
//!     v2t t2v t2vr             `From<KmerMinHash>`, `From<KmerMinHashBTree>`, `From<&KmerMinHashBTree>`
//!     v2t2v t2v2t t2vr2t       there and back
//!     vclone tclone            `Clone`
//!     vserde tserde            serde_json round trip of the sketch
//!     vsig tsig                wrapped as `Sketch::MinHash` / `Sketch::LargeMinHash` in a Signature, `sketches()[0]`
//!     vsigjson tsigjson        that Signature through serde_json::to_string / Signature::from_reader
//!     vcfirst tcfirst          that Signature through the C API `signature_first_mh`, read back through
//!                              `kmerminhash_max_hash` / `kmerminhash_num`
//!     cnew cpush               `kmerminhash_new` (+ `signature_push_mh`, `signature_first_mh`), same getters
//!     cfp                      ComputeParameters(scaled = s, num_hashes = num) -> `Signature::from_params`
//!                              -> `signature_first_mh`, same getters
//!   (the C API has no `scaled` getter; bindings compute it from `kmerminhash_max_hash`, as the harness
//!   does with `scaled_for_max_hash`)
//!
//! Stream 5 (`case … downsample-max-hash`): `downsample_max_hash` driven with arbitrary ceilings.
//!   dsmh <v|t> <s> <m> <track> <hashes>   a sketch created at s (s = 0: a num sketch, num 500) is handed the
//!                              hashes (abundance i % 3 + 1 for the i-th), then `downsample_max_hash(m)`; answer
//!                              `scaled=<reported> mh=<ceiling> mins=<kept> [abunds=<..>] compat=<check_compatible
//!                              of a sketch created at the reported scaled> merged=<its size after merge>`
//!                              or `err CannotUpsampleScaled`
//!
//! Stream 6 (`case … sigstores`): `SigStore` as a consumer - `impl Select for SigStore` works on a lazily
//! initialised `data` cell, and what the store DELIVERS after an accepted selection must report the
//! requested value whatever state the cell was in.
//!   selstore <route> <prog> <c> <num> <s> [<s2>]
//!         a signature holding a vector sketch created at c (size bound num; c = 0: a num sketch) and a
//!         tree sketch created at 1, one hash each, wrapped in a store by <route>; the letters of <prog> run
//!         in order, then `data()`: `ok <scaled reported by each delivered sketch>` / `err <Variant>`
//!           routes  from        SigStore::from(sig)                              data filled, no storage
//!                   nws         SigStore::new_with_storage(sig, memory)          data filled, storage
//!                   lmem | lfs  InnerStorage::load_sig(path)                     data filled (fs: through JSON)
//!                   bmem | bfs  SigStore::builder().filename(path).name(..).metadata(..)
//!                               .storage(Some(storage)).build()                  data EMPTY, read on demand
//!                   dsi         SigStore::from(DatasetInfo {..})                 data empty, no storage
//!           prog    r `data()`   k continue with a clone   K `data()` on a clone (the store stays as it was)
//!                   s select(scaled = s)   t select(scaled = s2)   - nothing
//!   selstoreget …   the same, but a REFUSED select is retried the way a caller has to (`data()` first,
//!                   then select again): what the caller holds after an accepted selection
use sourmash::cmd::ComputeParameters;
use sourmash::collection::Collection;
use sourmash::encodings::HashFunctions;
use sourmash::ffi::minhash::{kmerminhash_free, kmerminhash_max_hash, kmerminhash_new, kmerminhash_num, SourmashKmerMinHash};
use sourmash::ffi::signature::{signature_first_mh, signature_free, signature_new, signature_push_mh, SourmashSignature};
use sourmash::ffi::utils::{sourmash_err_clear, sourmash_err_get_last_code, ForeignObject};
use sourmash::ffi::HashFunctions as FfiHashFunctions;
use sourmash::manifest::{Manifest, Record};
use sourmash::prelude::*;
use sourmash::selection::Selection;
use sourmash::signature::{Signature, SigsTrait};
use sourmash::sketch::minhash::{
    max_hash_for_scaled, scaled_for_max_hash, KmerMinHash, KmerMinHashBTree,
};
use sourmash::sketch::Sketch;
use sourmash::storage::{DatasetInfo, FSStorage, InnerStorage, MemStorage, SigStore, Storage};
use verif_harness::*;

fn gen(a: &Args) {
    let mut r = Rng::new(a.seed);
    let mut o = Out::new();
    let thorough = a.tier == "thorough";
    // stream 1: the conversions themselves, boundary-heavy
    o.case("conversions");
    let dense = if thorough { 300_000 } else { 20_000 };
    for s in 0..dense {
        o.op(&format!("rt {}", s));
    }
    for k in 0..64u32 {
        for d in 0..4u64 {
            let p = 1u64 << k;
            for v in [p.wrapping_add(d), p.wrapping_sub(d)] {
                o.op(&format!("mh {}", v));
                o.op(&format!("sc {}", v));
                if v != 0 {
                    o.op(&format!("close {}", v));
                }
                if v <= (1u64 << 31) {
                    o.op(&format!("rt {}", v));
                }
            }
        }
    }
    o.op(&format!("mh {}", u64::MAX));
    o.op(&format!("sc {}", u64::MAX));
    let n = if thorough { 400_000 } else { 30_000 };
    for _ in 0..n {
        let v = r.bits(64);
        o.op(&format!("mh {}", v));
        o.op(&format!("sc {}", v));
        let s = r.range(1, 1 << 31);
        o.op(&format!("rt {}", s));
        let (x, y) = (r.bits(64).max(1), r.bits(64).max(1));
        o.op(&format!("mono {} {}", x, y));
        // neighbours: where an inversion would show first
        let z = r.bits(33).max(1);
        o.op(&format!("mono {} {}", z, z + 1));
        o.op(&format!("close {}", r.bits(64).max(2)));
    }
    // thorough only: the real code walks the whole stated range itself (the theorem covers it on the
    // model; this is the implementation side of the same claim, exhaustively)
    if thorough {
        o.case("sweeps");
        let step = 1u64 << 27;
        let mut lo = 1u64;
        while lo <= (1u64 << 31) {
            let hi = (lo + step - 1).min(1u64 << 31);
            o.op(&format!("sweep {} {}", lo, hi));
            lo = hi + 1;
        }
        let mut lo = 1u64;
        while lo < (1u64 << 32) {
            let hi = (lo + (1u64 << 28)).min(1u64 << 32);
            o.op(&format!("monosweep {} {}", lo, hi));
            lo = hi;
        }
    }
    // stream 2: every consumer of the reported value
    o.case("consumers");
    let n = if thorough { 40_000 } else { 4_000 };
    for i in 0..n {
        let s = if i < 2000 { i + 1 } else { r.range(1, 1 << 31) };
        for op in ["new", "newtree", "ds", "dsn", "rec", "sel", "seln"] {
            o.op(&format!("{} {}", op, s));
        }
        // the same consumers on sketches that carry a num next to the scaled value (what
        // ComputeParameters' default num_hashes = 500 produces): larger than what they hold, and 1
        let num = *r.pick(&[1u64, 2, 500, 1000, u32::MAX as u64]);
        for op in ["new", "newtree", "ds", "dsn", "rec", "sel", "seln"] {
            o.op(&format!("{} {} {}", op, s, num));
        }
        // through the glue: ComputeParameters -> Signature::from_params -> sketches()[0] (fp), its
        // manifest record (fprec), a from_params signature made at 1, fed a sequence and selected at s
        // (fpsel); num_hashes left at its default (d) or set
        let nh = *r.pick(&["d", "d", "0", "1", "500", "20000"]);
        let mol = *r.pick(&["dna", "dna", "protein", "dayhoff", "hp"]);
        let tr = r.below(2);
        for op in ["fp", "fprec", "fpsel"] {
            o.op(&format!("{} {} {} {} {}", op, s, nh, mol, tr));
        }
        // compatibility decisions go through the reported value: an (empty) sketch created at s must
        // refuse a sketch created at t != s and still report s afterwards, and accept t = s
        let t = match r.below(4) {
            0 => s,
            1 => s + 1,
            2 => s.saturating_sub(1).max(1),
            _ => r.range(1, 1 << 31),
        };
        o.op(&format!("compat {} {}", s, t));
    }
    // stream 4: what is made FROM a sketch created at s reports s too
    o.case("conversions-of-sketches");
    let n = if thorough { 40_000 } else { 4_000 };
    for i in 0..n {
        let s = if i < 1500 {
            i + 1
        } else if r.chance(1, 12) {
            *r.pick(&[1u64 << 31, (1u64 << 31) - 1, 1 << 30, 1_000_003, 65_536, 0])
        } else {
            r.range(1, 1 << 31)
        };
        let num = *r.pick(&[0u64, 1, 500]);
        for route in ROUTES {
            // a pure num sketch (s = 0) needs a num
            let num = if s == 0 && num == 0 { 500 } else { num };
            o.op(&format!("conv {} {} {}", route, s, num));
        }
        for _ in 0..3 {
            let num = *r.pick(&[1u64, 500, 500, 2, u32::MAX as u64]);
            o.op(&format!("conv {} {} {}", *r.pick(ROUTES), s, num));
        }
        o.op(&format!("convx {} {} {}", *r.pick(ROUTES), s.max(1), *r.pick(&[0u64, 1, 500])));
        // model column only: sketches loaded with an arbitrary ceiling
        let v = r.bits(64);
        for _ in 0..2 {
            let route = loop {
                let x = *r.pick(ROUTES);
                if !x.starts_with('c') {
                    break x;
                }
            };
            o.op(&format!("convmh {} {}", route, v));
        }
    }
    for k in 0..64u32 {
        for d in 0..3u64 {
            let p = 1u64 << k;
            for v in [p.wrapping_add(d), p.wrapping_sub(d)] {
                for route in ["t2v", "t2vr", "v2t", "tcfirst", "vclone", "tsigjson"] {
                    o.op(&format!("convmh {} {}", route, v));
                }
            }
        }
    }
    // stream 5: downsample_max_hash with ceilings that are NOT bit-identical to a canonical one
    o.case("downsample-max-hash");
    let n = if thorough { 60_000 } else { 5_000 };
    const TOP31: u64 = 1 << 31;
    let mhs = max_hash_for_scaled;
    for i in 0..n {
        // the value the sketch is created at
        let s = match r.below(12) {
            0..=2 => 1,
            3..=4 => *r.pick(&[2u64, 3, 10, 100, 1000, 1000, 2000, 10_000]),
            5..=6 => r.range(1, 3000),
            7 => r.bits(31).max(1),
            8 => *r.pick(&[TOP31, TOP31 - 1, 1 << 30]),
            9 if i % 4 == 0 => 0,
            _ => r.range(1, 100_000),
        };
        // the value the ceiling is aimed at: coarser most of the time, the same, or finer (refused)
        let t = match r.below(10) {
            0 => s.max(1),
            1 => s.saturating_sub(r.range(1, 3)).max(1),
            2..=4 => (s.max(1) * r.range(2, 10)).min(TOP31),
            5 => (s + r.range(1, 3)).min(TOP31),
            6 => *r.pick(&[2u64, 3, 7, 10, 999, 1000, 2000, 65_536, 1_000_003, 1 << 24, TOP31]),
            _ => r.range(s.max(1), (s.max(1).saturating_mul(1000)).min(TOP31)),
        };
        let c = mhs(t);
        // neighbours of the target ceiling on both sides
        let up = if t > 1 { mhs(t - 1) } else { u64::MAX };
        let down = mhs(t + 1);
        let m = match r.below(16) {
            0..=1 => c,
            2 => c.saturating_add(1),
            3 => c.saturating_sub(1),
            // integer arithmetic, as a caller would do it
            4..=5 => u64::MAX / t,
            6 => ((1u128 << 64) / t as u128).min(u64::MAX as u128) as u64,
            // between two canonical ceilings: a quarter / almost half of the way to either neighbour
            7 => c + (up - c) / 4,
            8 => c - (c - down) / 4,
            9 => c + (up - c) / 2 - r.below(3).min((up - c) / 2),
            10 => c - ((c - down) / 2).saturating_sub(r.below(3)),
            11 => c.saturating_add(r.bits(20)),
            12 => c.saturating_sub(r.bits(20)),
            // above the sketch's own ceiling
            13 => *r.pick(&[u64::MAX, mhs(s).saturating_add(1), mhs(s)]),
            14 => r.bits(64),
            _ => *r.pick(&[0u64, 1, 2, 100, 1 << 32, (1 << 33) + 1]),
        };
        // hashes around every ceiling in play
        let own = mhs(s);
        let mut hs: Vec<u64> = vec![7];
        for x in [c, m, own, down, up] {
            for d in [0u64, 1, 2] {
                if r.chance(2, 3) {
                    hs.push(x.saturating_sub(d));
                }
                if r.chance(1, 2) {
                    hs.push(x.saturating_add(d));
                }
            }
        }
        for _ in 0..r.range(0, 4) {
            hs.push(r.range(1, c.max(2)));
            hs.push(r.range(m.min(c).max(1), m.max(c).max(1)));
        }
        hs.push(r.bits(64));
        let mut seen = std::collections::HashSet::new();
        hs.retain(|&h| h != 0 && seen.insert(h));
        for a in (1..hs.len()).rev() {
            let b = r.below(a as u64 + 1) as usize;
            hs.swap(a, b);
        }
        o.op(&format!("dsmh {} {} {} {} {}", if r.chance(1, 2) { "t" } else { "v" }, s, m, r.below(2), show_nats(hs)));
    }
    // stream 6: SigStore in every state of its data cell as a consumer of the reported value
    o.case("sigstores");
    let n = if thorough { 30_000 } else { 2_500 };
    const SROUTES: &[&str] = &["from", "nws", "lmem", "lfs", "bmem", "bmem", "bfs", "bfs", "dsi"];
    const PROGS: &[&str] = &[
        "s", "s", "s", "rs", "ks", "Ks", "Krs", "sr", "st", "st", "rst", "srt", "skt", "sKt", "kst", "-", "r", "K", "ss", "sts",
    ];
    for i in 0..n {
        let c = match r.below(10) {
            0 => *r.pick(&[1u64, 2, 10, 100, 1000, 1000, 2000, 10_000]),
            1 => *r.pick(&[92u64, 93, 94, TOP31, TOP31 - 1, 1 << 30, 65_536, 1_000_003]),
            2 => r.bits(31).max(1),
            3 if i % 3 == 0 => 0,
            _ => r.range(1, 100_000),
        };
        let near = |r: &mut Rng, c: u64| -> u64 {
            (match r.below(12) {
                0 => c,
                1 => c + 1,
                2 => c.saturating_sub(1),
                3 | 4 => c * r.range(2, 10),
                5 => c / 2,
                6 => *r.pick(&[1u64, 1000, 2000, 10_000, 100_000, TOP31, u32::MAX as u64]),
                7 => r.bits(31),
                _ => r.range(c, c.saturating_mul(1000).max(2)),
            })
            .clamp(1, u32::MAX as u64)
        };
        let s = near(&mut r, c.max(1));
        let s2 = near(&mut r, s);
        let num = *r.pick(&[0u64, 0, 1, 500]);
        let num = if c == 0 && num == 0 { 500 } else { num };
        let route = *r.pick(SROUTES);
        let prog = *r.pick(PROGS);
        for op in ["selstore", "selstoreget"] {
            o.op(&format!("{} {} {} {} {} {} {}", op, route, prog, c, num, s, s2));
        }
    }
    // stream 3: manifests and selection as consumers of the reported value: rows whose scaled is just
    // below / at / just above the request, multiples, num rows (reported scaled 0), rows with both;
    // requests carrying ksize + scaled, ksize + num, ksize + num + scaled (what the revindex C API
    // builds from a template), scaled alone
    let ncases = if thorough { 6_000 } else { 500 };
    const TOP: u64 = 1 << 31;
    for _ in 0..ncases {
        o.case("manifests");
        let req = match r.below(4) {
            0 => *r.pick(&[1u64, 2, 3, 92, 93, 94, 1000, 1001, 2000, 10_000, TOP - 1, TOP]),
            1 => r.range(1, 3000),
            _ => r.bits(31).max(1),
        };
        let k = *r.pick(&[21u64, 31]);
        let nrows = r.range(3, 8);
        let mut nums: Vec<u64> = vec![];
        for _ in 0..nrows {
            let kk = if r.chance(1, 4) { 52 - k } else { k };
            let s = match r.below(9) {
                0 => req.saturating_sub(1),
                1 | 2 => req,
                3 | 4 => req + 1,
                5 => req.saturating_mul(2),
                6 => req / 2,
                7 => *r.pick(&[1u64, 10, 1000, 10_000, TOP]),
                _ => r.bits(31).max(1),
            }
            .min(TOP);
            let (s, num) = match r.below(8) {
                0 | 1 => (0, *r.pick(&[1u64, 500])),
                2 => (s, *r.pick(&[1u64, 500])),
                _ => (s, 0),
            };
            if num != 0 {
                nums.push(num);
            }
            o.op(&format!("mrow {} {} {}", kk, s, num));
        }
        let n = if nums.is_empty() || r.chance(1, 4) { *r.pick(&[1u64, 500, 7]) } else { *r.pick(&nums) };
        let near = |r: &mut Rng| match r.below(4) {
            0 => req.saturating_sub(1).max(1),
            1 => (req + 1).min(u32::MAX as u64),
            _ => req,
        };
        for op in ["msel", "mcsel", "mload"] {
            o.op(&format!("{} {} - {}", op, k, req));
            o.op(&format!("{} {} - {}", op, 52 - k, near(&mut r)));
            o.op(&format!("{} {} {} -", op, k, n));
            o.op(&format!("{} {} 0 {}", op, k, near(&mut r)));
            o.op(&format!("{} - - {}", op, near(&mut r)));
        }
        o.op(&format!("msel {} {} {}", k, n, req));
        o.op(&format!("msel - {} -", n));
        o.op(&format!("msel {} - -", k));
        o.op(&format!("msel - 0 {}", req));
    }
}

const ROUTES: &[&str] = &[
    "v2t", "t2v", "t2vr", "v2t2v", "t2v2t", "t2vr2t", "vclone", "tclone", "vserde", "tserde", "vsig", "tsig", "vsigjson",
    "tsigjson", "vcfirst", "tcfirst", "cnew", "cpush", "cfp",
];

/// (scaled, max_hash, num) a sketch reports
fn rep_v(m: &KmerMinHash) -> (u64, u64, u32) {
    (m.scaled(), m.max_hash(), m.num())
}
fn rep_t(m: &KmerMinHashBTree) -> (u64, u64, u32) {
    (m.scaled(), m.max_hash(), m.num())
}
fn rep_sk(s: &Sketch) -> Result<(u64, u64, u32), String> {
    match s {
        Sketch::MinHash(m) => Ok(rep_v(m)),
        Sketch::LargeMinHash(m) => Ok(rep_t(m)),
        _ => Err("other-sketch".into()),
    }
}
/// read a C handle back through the getters (the C API has no scaled getter), then free it
unsafe fn rep_c(h: *mut SourmashKmerMinHash) -> Result<(u64, u64, u32), String> {
    let code = sourmash_err_get_last_code() as u32;
    if code != 0 || h.is_null() {
        sourmash_err_clear();
        return Err(format!("err code{}", code));
    }
    let mh = kmerminhash_max_hash(h);
    let num = kmerminhash_num(h);
    kmerminhash_free(h);
    Ok((scaled_for_max_hash(mh), mh, num))
}

/// push a vector / tree sketch through a route
fn derive(route: &str, v: Option<KmerMinHash>, t: Option<KmerMinHashBTree>) -> Result<(u64, u64, u32), String> {
    let sig_of = |sk: Sketch| {
        let mut sig = Signature::default();
        sig.set_name("conv");
        sig.push(sk);
        sig
    };
    let first = |sig: &Signature| unsafe {
        sourmash_err_clear();
        rep_c(signature_first_mh(SourmashSignature::from_ref(sig)))
    };
    let sigjson = |sig: Signature| -> Result<(u64, u64, u32), String> {
        let js = serde_json::to_string(&vec![sig]).map_err(|e| format!("err {:?}", e))?;
        let back = Signature::from_reader(js.as_bytes()).map_err(|e| format!("err {:?}", e))?;
        match back.first().map(|s| s.sketches()) {
            Some(sk) if sk.len() == 1 => rep_sk(&sk[0]),
            _ => Err("no-sketch".into()),
        }
    };
    match (route, v, t) {
        ("v2t", Some(v), _) => Ok(rep_t(&KmerMinHashBTree::from(v))),
        ("t2v", _, Some(t)) => Ok(rep_v(&KmerMinHash::from(t))),
        ("t2vr", _, Some(t)) => Ok(rep_v(&KmerMinHash::from(&t))),
        ("v2t2v", Some(v), _) => Ok(rep_v(&KmerMinHash::from(KmerMinHashBTree::from(v)))),
        ("t2v2t", _, Some(t)) => Ok(rep_t(&KmerMinHashBTree::from(KmerMinHash::from(t)))),
        ("t2vr2t", _, Some(t)) => Ok(rep_t(&KmerMinHashBTree::from(KmerMinHash::from(&t)))),
        ("vclone", Some(v), _) => Ok(rep_v(&v.clone())),
        ("tclone", _, Some(t)) => Ok(rep_t(&t.clone())),
        ("vserde", Some(v), _) => {
            let js = serde_json::to_string(&v).unwrap();
            serde_json::from_str::<KmerMinHash>(&js).map(|m| rep_v(&m)).map_err(|e| format!("err {:?}", e))
        }
        ("tserde", _, Some(t)) => {
            let js = serde_json::to_string(&t).unwrap();
            serde_json::from_str::<KmerMinHashBTree>(&js).map(|m| rep_t(&m)).map_err(|e| format!("err {:?}", e))
        }
        ("vsig", Some(v), _) => rep_sk(&sig_of(Sketch::MinHash(v)).sketches()[0]),
        ("tsig", _, Some(t)) => rep_sk(&sig_of(Sketch::LargeMinHash(t)).sketches()[0]),
        ("vsigjson", Some(v), _) => sigjson(sig_of(Sketch::MinHash(v))),
        ("tsigjson", _, Some(t)) => sigjson(sig_of(Sketch::LargeMinHash(t))),
        ("vcfirst", Some(v), _) => first(&sig_of(Sketch::MinHash(v))),
        ("tcfirst", _, Some(t)) => first(&sig_of(Sketch::LargeMinHash(t))),
        _ => Err("bad-op".into()),
    }
}

fn conv_created(route: &str, s: u64, num: u32) -> Result<(u64, u64, u32), String> {
    match route {
        "cnew" => unsafe {
            sourmash_err_clear();
            rep_c(kmerminhash_new(s, 21, FfiHashFunctions::Murmur64Dna, 42, false, num))
        },
        "cpush" => unsafe {
            sourmash_err_clear();
            let h = kmerminhash_new(s, 21, FfiHashFunctions::Murmur64Dna, 42, false, num);
            let sig = signature_new();
            signature_push_mh(sig, h);
            kmerminhash_free(h);
            let r = rep_c(signature_first_mh(sig));
            signature_free(sig);
            r
        },
        "cfp" => unsafe {
            let mut p = ComputeParameters::builder().build();
            p.set_ksizes(vec![21, 31]);
            p.set_scaled(s);
            p.set_num_hashes(num);
            let sig = Signature::from_params(&p);
            sourmash_err_clear();
            rep_c(signature_first_mh(SourmashSignature::from_ref(&sig)))
        },
        _ => {
            if route.starts_with('v') {
                let mut v = KmerMinHash::new(s, 21, HashFunctions::Murmur64Dna, 42, false, num);
                v.add_hash(7);
                derive(route, Some(v), None)
            } else {
                let mut t = KmerMinHashBTree::new(s, 21, HashFunctions::Murmur64Dna, 42, false, num);
                t.add_hash(7);
                derive(route, None, Some(t))
            }
        }
    }
}

/// a sketch as `Deserialize` builds it from a document with this `max_hash` (kept as it is)
fn conv_loaded(route: &str, mh: u64) -> Result<(u64, u64, u32), String> {
    let js = format!(
        "{{\"num\":0,\"ksize\":21,\"seed\":42,\"max_hash\":{},\"mins\":[],\"md5sum\":\"d41d8cd98f00b204e9800998ecf8427e\",\"molecule\":\"DNA\"}}",
        mh
    );
    if route.starts_with('v') {
        let v: KmerMinHash = serde_json::from_str(&js).map_err(|e| format!("err {:?}", e))?;
        if v.max_hash() != mh {
            return Err(format!("loaded {}", v.max_hash()));
        }
        derive(route, Some(v), None)
    } else {
        let t: KmerMinHashBTree = serde_json::from_str(&js).map_err(|e| format!("err {:?}", e))?;
        if t.max_hash() != mh {
            return Err(format!("loaded {}", t.max_hash()));
        }
        derive(route, None, Some(t))
    }
}

fn msel_of(ws: &[&str]) -> Selection {
    let mut sel = Selection::default();
    if ws[0] != "-" {
        sel.set_ksize(ws[0].parse().unwrap());
    }
    if ws[1] != "-" {
        sel.set_num(ws[1].parse().unwrap());
    }
    if ws[2] != "-" {
        sel.set_scaled(ws[2].parse().unwrap());
    }
    sel
}

/// `r<i>` -> `<i>`
fn row_ids<'a, I: IntoIterator<Item = &'a Record>>(rs: I) -> String {
    show_nats(rs.into_iter().map(|r| r.name()[1..].parse::<u64>().unwrap()))
}

/// the scaled values every MinHash sketch of a signature reports
fn scaleds(sig: &Signature) -> Vec<u64> {
    sig.sketches()
        .iter()
        .map(|s| match s {
            Sketch::MinHash(mh) => mh.scaled(),
            Sketch::LargeMinHash(mh) => mh.scaled(),
            _ => 0,
        })
        .collect()
}

fn one(v: Vec<u64>, want: usize) -> String {
    if v.len() == want && v.iter().all(|&x| x == v[0]) {
        v[0].to_string()
    } else {
        format!("sketches {:?}", v)
    }
}

fn params(s: u64, nh: &str, mol: &str, track: bool) -> ComputeParameters {
    let mut p = ComputeParameters::builder().build();
    p.set_ksizes(vec![21, 30]);
    p.set_dna(mol == "dna");
    p.set_protein(mol == "protein");
    p.set_dayhoff(mol == "dayhoff");
    p.set_hp(mol == "hp");
    p.set_scaled(s);
    if nh != "d" {
        p.set_num_hashes(nh.parse().unwrap());
    }
    p.set_track_abundance(track);
    p
}

const SEQ: &[u8] = b"GATTACAGATTACCAGGTTTACGATCGATCGGCTAGCTAGCATCGACTAGCTACGATCGATCGACTAGCTAGCTAGCATCGATCAGCTACGACTAGC";

fn sig_with(mh: KmerMinHash) -> Signature {
    let mut sig = Signature::default();
    sig.push(Sketch::MinHash(mh));
    sig
}

fn err_name<E: std::fmt::Debug>(e: E) -> String {
    let s = format!("{:?}", e);
    format!("err {}", s.chars().take_while(|c| c.is_alphanumeric()).collect::<String>())
}

/// a scratch directory for a filesystem-backed store (tmpfs when there is one: durability is not what
/// this is about); removed when the value is dropped
fn store_dir() -> tempfile::TempDir {
    let shm = std::path::Path::new("/dev/shm");
    if shm.is_dir() {
        if let Ok(d) = tempfile::Builder::new().prefix("verif-c14-").tempdir_in(shm) {
            return d;
        }
    }
    verif_harness::index_util::scratch_dir()
}

/// `selstore` / `selstoreget`
fn sel_store(ws: &[&str], retry: bool) -> String {
    let n = |i: usize| -> u64 { ws[i].parse().unwrap() };
    let (route, prog, c, num, s) = (ws[1], ws[2], n(3), n(4) as u32, n(5) as u32);
    let s2 = ws.get(6).map(|w| w.parse::<u32>().unwrap()).unwrap_or(s);
    let mut v = KmerMinHash::new(c, 21, HashFunctions::Murmur64Dna, 42, false, num);
    v.add_hash(7);
    let mut t = KmerMinHashBTree::new(1, 21, HashFunctions::Murmur64Dna, 42, false, 0);
    t.add_hash(7);
    let mut sig = Signature::default();
    sig.set_name("x");
    sig.set_filename("x.fa");
    sig.push(Sketch::MinHash(v));
    sig.push(Sketch::LargeMinHash(t));
    let path = "x.sig".to_string();
    // declared before the store: dropped (and removed) after it
    let dir = if route.ends_with("fs") { Some(store_dir()) } else { None };
    let storage = |sig: &Signature| -> InnerStorage {
        if let Some(dir) = &dir {
            let fs = FSStorage::new(dir.path().to_str().unwrap(), "");
            fs.save_sig(&path, sig.clone()).unwrap();
            InnerStorage::new(fs)
        } else {
            let mem = MemStorage::new();
            mem.save_sig(&path, sig.clone()).unwrap();
            InnerStorage::new(mem)
        }
    };
    let mut store: SigStore = match route {
        "from" => SigStore::from(sig),
        "nws" => {
            let st = storage(&sig);
            SigStore::new_with_storage(sig, st)
        }
        "lmem" | "lfs" => match storage(&sig).load_sig(&path) {
            Ok(s) => s,
            Err(e) => return err_name(e),
        },
        "bmem" | "bfs" => SigStore::builder()
            .filename(path.clone())
            .name(sig.name())
            .metadata("")
            .storage(Some(storage(&sig)))
            .build(),
        "dsi" => SigStore::from(DatasetInfo { filename: path.clone(), name: sig.name(), metadata: "".into() }),
        _ => return "bad-op".into(),
    };
    for l in prog.chars() {
        match l {
            'r' => {
                let _ = store.data();
            }
            '-' => {}
            'k' => store = store.clone(),
            'K' => {
                let c = store.clone();
                let _ = c.data();
            }
            's' | 't' => {
                let mut sel = Selection::default();
                sel.set_scaled(if l == 's' { s } else { s2 });
                let spare = if retry { Some(store.clone()) } else { None };
                store = match store.select(&sel) {
                    Ok(x) => x,
                    Err(e) => match spare {
                        None => return err_name(e),
                        Some(spare) => {
                            if let Err(e) = spare.data() {
                                return err_name(e);
                            }
                            match spare.select(&sel) {
                                Ok(x) => x,
                                Err(e) => return err_name(e),
                            }
                        }
                    },
                };
            }
            _ => return "bad-op".into(),
        }
    }
    // what the store delivers: `data()` and, from it, `sketches()`
    match store.data() {
        Ok(sig) => format!("ok {}", show_nats(scaleds(sig))),
        Err(e) => err_name(e),
    }
}

fn step(st: &mut Vec<Signature>, ws: &[&str]) -> String {
    match ws[0] {
        "selstore" | "selstoreget" => return sel_store(ws, ws[0] == "selstoreget"),
        "mrow" => {
            let n = |i: usize| -> u64 { ws[i].parse().unwrap() };
            let mh = KmerMinHash::new(n(2), n(1) as u32, HashFunctions::Murmur64Dna, 42, false, n(3) as u32);
            let mut sig = sig_with(mh);
            sig.set_name(&format!("r{}", st.len()));
            let rec = Record::from_sig(&sig, "loc");
            st.push(sig);
            return rec[0].scaled().to_string();
        }
        "msel" => {
            let rows: Vec<Record> = st.iter().flat_map(|s| Record::from_sig(s, "loc")).collect();
            return match Manifest::from(rows).select(&msel_of(&ws[1..])) {
                Ok(m) => row_ids(m.iter()),
                Err(e) => format!("err {:?}", e),
            };
        }
        "mcsel" => {
            let c = Collection::from_sigs(st.clone()).unwrap();
            return match c.select(&msel_of(&ws[1..])) {
                Ok(c) => row_ids(c.manifest().iter()),
                Err(e) => format!("err {:?}", e),
            };
        }
        "conv" | "convx" => {
            let (s, num): (u64, u32) = (ws[2].parse().unwrap(), ws[3].parse().unwrap());
            return match conv_created(ws[1], s, num) {
                Ok((sc, mh, n)) => {
                    if ws[0] == "conv" {
                        sc.to_string()
                    } else {
                        format!("mh={} num={}", mh, n)
                    }
                }
                Err(e) => e,
            };
        }
        "dsmh" => {
            let n = |i: usize| -> u64 { ws[i].parse().unwrap() };
            let (s, m, track, hs) = (n(2), n(3), ws[4] == "1", parse_nats(ws[5]));
            let num = if s == 0 { 500 } else { 0 };
            let en = |e: sourmash::Error| -> String {
                format!("err {}", format!("{:?}", e).split(|c: char| !c.is_alphanumeric()).next().unwrap_or(""))
            };
            macro_rules! run {
                ($ty:ident) => {{
                    let mut a = $ty::new(s, 21, HashFunctions::Murmur64Dna, 42, track, num);
                    for (i, h) in hs.iter().enumerate() {
                        a.add_hash_with_abundance(*h, (i % 3 + 1) as u64);
                    }
                    match a.downsample_max_hash(m) {
                        Err(e) => en(e),
                        Ok(d) => {
                            let r = d.scaled();
                            // a sketch CREATED at the value the result reports must accept it
                            let mut fresh = $ty::new(r, 21, HashFunctions::Murmur64Dna, 42, track, num);
                            let compat = match fresh.check_compatible(&d) {
                                Ok(()) => "ok".to_string(),
                                Err(e) => en(e),
                            };
                            let merged = match fresh.merge(&d) {
                                Ok(()) => fresh.size().to_string(),
                                Err(e) => en(e),
                            };
                            let ab = match d.abunds() {
                                Some(a) => format!(" abunds={}", show_nats(a)),
                                None => String::new(),
                            };
                            format!("scaled={} mh={} mins={}{} compat={} merged={}", r, d.max_hash(), show_nats(d.mins()), ab, compat, merged)
                        }
                    }
                }};
            }
            return if ws[1] == "t" { run!(KmerMinHashBTree) } else { run!(KmerMinHash) };
        }
        "convmh" => {
            return match conv_loaded(ws[1], ws[2].parse().unwrap()) {
                Ok((sc, mh, _)) => format!("mh={} scaled={}", mh, sc),
                Err(e) => e,
            };
        }
        "mload" => {
            let sel = msel_of(&ws[1..]);
            let c = Collection::from_sigs(st.clone()).unwrap().select(&sel).unwrap();
            let mut out = vec![];
            for (i, rec) in c.iter() {
                let id = &rec.name()[1..];
                out.push(match c.sig_for_dataset(i).and_then(|s| s.select(&sel)) {
                    Ok(s) => match Signature::from(s).sketches().first() {
                        Some(Sketch::MinHash(mh)) => format!("{}:{}", id, mh.scaled()),
                        _ => format!("{}:none", id),
                    },
                    Err(e) => format!("{}:err {:?}", id, e),
                });
            }
            return if out.is_empty() { "-".into() } else { out.join(",") };
        }
        _ => {}
    }
    let n = |i: usize| -> u64 { ws[i].parse().unwrap() };
    // optional third word of the consumer ops: the num the sketch carries next to its scaled
    let num: u32 = match ws[0] {
        "new" | "newtree" | "ds" | "dsn" | "rec" | "sel" | "seln" => ws.get(2).map(|w| w.parse().unwrap()).unwrap_or(0),
        _ => 0,
    };
    match ws[0] {
        "fp" | "fprec" | "fpsel" => {
            let track = ws[4] == "1";
            match ws[0] {
                "fp" => one(scaleds(&Signature::from_params(&params(n(1), ws[2], ws[3], track))), 2),
                "fprec" => {
                    let mut sig = Signature::from_params(&params(n(1), ws[2], ws[3], track));
                    // (an unnamed signature with several sketches cannot be recorded: name() falls
                    // back to Signature::md5sum, which is unimplemented!() for more than one sketch)
                    sig.set_name("fp");
                    let recs = Record::from_sig(&sig, "loc");
                    one(recs.iter().map(|r| *r.scaled()).collect(), 2)
                }
                _ => {
                    let mut sig = Signature::from_params(&params(1, ws[2], ws[3], track));
                    if let Err(e) = sig.add_sequence(SEQ, false) {
                        return format!("err {:?}", e);
                    }
                    let mut sel = Selection::default();
                    sel.set_scaled(n(1) as u32);
                    match sig.select(&sel) {
                        Ok(sig) => one(scaleds(&sig), 2),
                        Err(e) => format!("err {:?}", e),
                    }
                }
            }
        }
        "case" => "ok".into(),
        "mh" => max_hash_for_scaled(n(1)).to_string(),
        "sc" => scaled_for_max_hash(n(1)).to_string(),
        "rt" => scaled_for_max_hash(max_hash_for_scaled(n(1))).to_string(),
        "new" => KmerMinHash::new(n(1), 21, HashFunctions::Murmur64Dna, 42, false, num)
            .scaled()
            .to_string(),
        "newtree" => KmerMinHashBTree::new(n(1), 21, HashFunctions::Murmur64Dna, 42, false, num)
            .scaled()
            .to_string(),
        "ds" => {
            // created at 1, downsampled to s
            let mh = KmerMinHash::new(1, 21, HashFunctions::Murmur64Dna, 42, false, num);
            match mh.downsample_scaled(n(1)) {
                Ok(d) => d.scaled().to_string(),
                Err(e) => format!("err {:?}", e),
            }
        }
        "dsn" => {
            // created at 1, holding one hash far below every ceiling, downsampled to s
            let mut mh = KmerMinHash::new(1, 21, HashFunctions::Murmur64Dna, 42, false, num);
            mh.add_hash(7);
            let mut t = KmerMinHashBTree::new(1, 21, HashFunctions::Murmur64Dna, 42, false, num);
            t.add_hash_with_abundance(7, 1);
            match (mh.downsample_scaled(n(1)), t.downsample_scaled(n(1))) {
                (Ok(d), Ok(dt)) if d.scaled() == dt.scaled() => d.scaled().to_string(),
                (Ok(d), Ok(dt)) => format!("vec {} tree {}", d.scaled(), dt.scaled()),
                (a, b) => format!("err {:?} {:?}", a.err(), b.err()),
            }
        }
        "compat" => {
            let (a, b) = (n(1), n(2));
            let mut out = vec![];
            {
                let mut x = KmerMinHash::new(a, 21, HashFunctions::Murmur64Dna, 42, false, 0);
                let mut y = KmerMinHash::new(b, 21, HashFunctions::Murmur64Dna, 42, false, 0);
                y.add_hash(1);
                let r = x.merge(&y);
                out.push(match r {
                    Ok(()) => format!("ok {}", x.scaled()),
                    Err(e) => format!("err {} {}", format!("{:?}", e).split(|c: char| !c.is_alphanumeric()).next().unwrap_or(""), x.scaled()),
                });
            }
            {
                let mut x = KmerMinHashBTree::new(a, 21, HashFunctions::Murmur64Dna, 42, false, 0);
                let mut y = KmerMinHashBTree::new(b, 21, HashFunctions::Murmur64Dna, 42, false, 0);
                y.add_hash_with_abundance(1, 1);
                let r = x.merge(&y);
                out.push(match r {
                    Ok(()) => format!("ok {}", x.scaled()),
                    Err(e) => format!("err {} {}", format!("{:?}", e).split(|c: char| !c.is_alphanumeric()).next().unwrap_or(""), x.scaled()),
                });
            }
            if out[0] == out[1] {
                out[0].clone()
            } else {
                format!("vec {} tree {}", out[0], out[1])
            }
        }
        "seln" => {
            // a signature with two non-empty sketches (created at 1 and at s), selected at s:
            // every delivered sketch reports s
            let mut a = KmerMinHash::new(1, 21, HashFunctions::Murmur64Dna, 42, false, num);
            a.add_hash(7);
            let mut b = KmerMinHash::new(n(1), 21, HashFunctions::Murmur64Dna, 42, false, 0);
            b.add_hash(7);
            let mut sig = Signature::default();
            sig.push(Sketch::MinHash(a));
            sig.push(Sketch::MinHash(b));
            if num != 0 {
                // ... and a tree sketch created at 1 with the same num
                let mut t = KmerMinHashBTree::new(1, 21, HashFunctions::Murmur64Dna, 42, true, num);
                t.add_hash_with_abundance(7, 3);
                sig.push(Sketch::LargeMinHash(t));
                let mut sel = Selection::default();
                sel.set_scaled(n(1) as u32);
                return match sig.select(&sel) {
                    Ok(sig) => one(scaleds(&sig), 3),
                    Err(e) => format!("err {:?}", e),
                };
            }
            let mut sel = Selection::default();
            sel.set_scaled(n(1) as u32);
            match sig.select(&sel) {
                Ok(sig) => {
                    let v: Vec<u64> = sig
                        .sketches()
                        .iter()
                        .map(|s| match s {
                            Sketch::MinHash(mh) => mh.scaled(),
                            _ => 0,
                        })
                        .collect();
                    if v.len() == 2 && v[0] == v[1] {
                        v[0].to_string()
                    } else {
                        format!("sketches {:?}", v)
                    }
                }
                Err(e) => format!("err {:?}", e),
            }
        }
        "rec" => {
            let mh = KmerMinHash::new(n(1), 21, HashFunctions::Murmur64Dna, 42, false, num);
            let sig = sig_with(mh);
            let recs = Record::from_sig(&sig, "loc");
            recs[0].scaled().to_string()
        }
        "sel" => {
            // a sketch created at 1, selected at s: reports s
            let mh = KmerMinHash::new(1, 21, HashFunctions::Murmur64Dna, 42, false, num);
            let sig = sig_with(mh);
            let mut sel = Selection::default();
            sel.set_scaled(n(1) as u32);
            match sig.select(&sel) {
                Ok(sig) => match sig.sketches().first() {
                    Some(Sketch::MinHash(mh)) => mh.scaled().to_string(),
                    _ => "none".into(),
                },
                Err(e) => format!("err {:?}", e),
            }
        }
        "sweep" => {
            let (mut fails, mut first) = (0u64, 0u64);
            for s in n(1)..=n(2) {
                if scaled_for_max_hash(max_hash_for_scaled(s)) != s {
                    if fails == 0 {
                        first = s;
                    }
                    fails += 1;
                }
            }
            format!("fail={} first={}", fails, first)
        }
        "monosweep" => {
            let (mut inv, mut first) = (0u64, 0u64);
            let mut prev = max_hash_for_scaled(n(1));
            for s in n(1) + 1..=n(2) {
                let m = max_hash_for_scaled(s);
                if m > prev {
                    if inv == 0 {
                        first = s;
                    }
                    inv += 1;
                }
                prev = m;
            }
            format!("fail={} first={}", inv, first)
        }
        "mono" => {
            let (a, b) = (n(1), n(2));
            let (lo, hi) = if a <= b { (a, b) } else { (b, a) };
            if max_hash_for_scaled(hi) <= max_hash_for_scaled(lo) {
                "antitone".into()
            } else {
                "inversion".into()
            }
        }
        "close" => {
            let s = n(1) as u128;
            let m = max_hash_for_scaled(n(1)) as u128;
            let two64 = 1u128 << 64;
            let lhs = if m * s >= two64 { m * s - two64 } else { two64 - m * s };
            // lhs * 2^52 < s * 2^52 + 2^64 ; lhs < 2^65 so use checked arithmetic via shifting
            let ok = (lhs << 52) < (s << 52) + two64;
            if ok { "close".into() } else { "far".into() }
        }
        _ => "bad-op".into(),
    }
}

fn main() {
    let a = args();
    match a.mode.as_str() {
        "gen" => gen(&a),
        "exec" => exec_loop(Vec::new, step),
        _ => panic!("mode"),
    }
}
