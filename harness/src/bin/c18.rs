//! C18: HyperLogLog cardinality and overlap estimates stay within their error bound.
//!
//! Two sketches A and B per case (k = 21), filled with deterministic, pairwise distinct hashes
//! h_i = splitmix64(i) (a bijection of u64, implemented identically in Lean/Driver/C18.lean).
//! Request lines
//!   case <n> <kind>
//!   A <p> <start> <n> | B <p> <start> <n>   new(p, 21); add_hash(splitmix64(i)) for start <= i < start+n -> nz=<non-zero registers>
//!   hist A|B        estimators::counts with the width `cardinality` picks          -> comma list
//!   card A|B        cardinality() and the f64 the estimator returned               -> card=<n> bits=<16 hex | nan>
//!   cardint A|B     cardinality()                                                  -> <n>
//!   bound A|B       | cardinality() - n | <= 6 * 1.04/sqrt(m) * n + 1 ?            -> within | outside
//!   joint           estimators::joint_mle(A, B, p, q)                              -> a=<onlyA> b=<onlyB> i=<inter>
//!   api             A.union(B) A.intersection(B) A.similarity(B) A.containment(B)  -> u=.. i=.. s=<bits> c=<bits>
//!   consist         the four API answers all derive from one joint_mle triple       -> consistent | inconsistent <what>
//!   jhist           joint_mle's only-A/only-B equal mle(counts(merge(A,B))) - mle(counts(B|A)) at relerr 0.01 -> same | differ
//!   jbound          union / intersection estimates against the true sizes (10 sigma of |A ∪ B|, + 1) -> within | outside <what>
use sourmash::signature::SigsTrait;
use sourmash::sketch::hyperloglog::estimators;
use sourmash::sketch::hyperloglog::HyperLogLog;
use verif_harness::*;

pub fn splitmix64(i: u64) -> u64 {
    let mut z = i.wrapping_add(0x9E37_79B9_7F4A_7C15);
    z = (z ^ (z >> 30)).wrapping_mul(0xBF58_476D_1CE4_E5B9);
    z = (z ^ (z >> 27)).wrapping_mul(0x94D0_49BB_1331_11EB);
    z ^ (z >> 31)
}

// ------------------------------------------------------------------------------------ generator

/// one case = its kind and its op lines; cases are emitted in shuffled order so that the expensive
/// ones (large p, large n) are spread over the parallel workers of ./check
type Cases = Vec<(String, Vec<String>)>;

fn single(o: &mut Cases, p: u32, start: u64, n: u64) {
    o.push((
        "single".into(),
        vec![
            format!("A {} {} {}", p, start, n),
            "hist A".into(),
            "card A".into(),
            "cardint A".into(),
            "bound A".into(),
        ],
    ));
}

fn pair(o: &mut Cases, p: u32, sa: u64, na: u64, sb: u64, nb: u64, kind: &str) {
    let mut v = vec![format!("A {} {} {}", p, sa, na), format!("B {} {} {}", p, sb, nb)];
    for op in ["joint", "api", "consist", "jhist", "jbound", "bound A", "bound B"] {
        v.push(op.into());
    }
    o.push((kind.into(), v));
}

fn gen(a: &Args) {
    let mut r = Rng::new(a.seed);
    let mut o: Cases = vec![];
    let thorough = a.tier == "thorough";
    // ---- cardinality over the whole range 0 .. 64 m, every precision (all three counter widths)
    for p in 4..=18u32 {
        let m = 1u64 << p;
        let cap = if thorough { 64 * m } else { (64 * m).min(300_000) };
        let mut ns: Vec<u64> = vec![0, 1, 2, 3, 5, 10, 17, m / 4, m / 2, m - 1, m, m + 1, 2 * m, 3 * m, 5 * m, 8 * m, 16 * m, 32 * m, 64 * m];
        let extra = if thorough { 40 } else { 8 };
        for _ in 0..extra {
            // log-uniform in 1 .. 64 m
            let bits = r.range(1, (p + 6) as u64) as u32;
            ns.push(r.bits(bits).max(1));
        }
        let mut ns: Vec<u64> = ns.into_iter().map(|n| n.min(cap)).collect();
        ns.sort_unstable();
        ns.dedup();
        for n in ns {
            // the stream offset varies: different sample sets for the same n
            let start = if r.chance(1, 2) { 0 } else { r.bits(40) };
            single(&mut o, p, start, n);
        }
    }
    // small sketches, many sample sets: the u8 path and the small-range behaviour
    let many = if thorough { 4000 } else { 600 };
    for _ in 0..many {
        let p = r.range(4, 10) as u32;
        let m = 1u64 << p;
        let n = match r.below(4) {
            0 => r.range(0, 20),
            1 => r.range(0, m),
            2 => r.range(m, 8 * m),
            _ => r.range(8 * m, 64 * m),
        };
        single(&mut o, p, r.bits(48), n);
    }
    // ---- overlap regimes
    let ps: Vec<u32> = if thorough { (4..=18).collect() } else { vec![4, 5, 7, 8, 10, 12, 14, 15, 16, 18] };
    for &p in &ps {
        let m = 1u64 << p;
        let cap = if thorough { 16 * m } else { (16 * m).min(100_000) };
        let mut sizes: Vec<u64> = [m / 2, m, 4 * m, 16 * m].iter().map(|n| (*n).min(cap).max(1)).collect();
        sizes.dedup();
        for &na in &sizes {
            for &nb in &sizes {
                let s = r.bits(40);
                // disjoint
                pair(&mut o, p, s, na, s + na, nb, "disjoint");
                // partial: half of the smaller one shared
                let sh = na.min(nb) / 2;
                pair(&mut o, p, s, na, s + na - sh, nb, "partial");
                // nested: B inside A (or A inside B)
                if nb <= na {
                    pair(&mut o, p, s, na, s + r.below(na - nb + 1), nb, "nested");
                } else {
                    pair(&mut o, p, s + r.below(nb - na + 1), na, s, nb, "nested");
                }
                // identical
                if na == nb {
                    pair(&mut o, p, s, na, s, nb, "identical");
                }
            }
        }
        // empty operands
        pair(&mut o, p, 0, 0, 0, 0, "empty-empty");
        pair(&mut o, p, 0, m.min(cap), 0, 0, "nonempty-empty");
        pair(&mut o, p, 0, 0, 7, m.min(cap), "empty-nonempty");
    }
    let many = if thorough { 3000 } else { 400 };
    for _ in 0..many {
        let p = r.range(4, 11) as u32;
        let m = 1u64 << p;
        let na = r.range(1, 16 * m);
        let nb = r.range(1, 16 * m);
        let s = r.bits(44);
        // a random overlap: B starts somewhere in [s, s + na]
        let off = r.below(na + 1);
        let kind = if off == na { "disjoint" } else if off + nb <= na { "nested" } else { "partial" };
        pair(&mut o, p, s, na, s + off, nb, kind);
    }
    for i in (1..o.len()).rev() {
        let j = r.below(i as u64 + 1) as usize;
        o.swap(i, j);
    }
    let mut out = Out::new();
    for (kind, ops) in &o {
        out.case(kind);
        for l in ops {
            out.op(l);
        }
    }
}

// ------------------------------------------------------------------------------------ exec

#[derive(Clone)]
struct Sk {
    h: HyperLogLog,
    p: usize,
    start: u64,
    n: u64,
}
#[derive(Default)]
struct St {
    a: Option<Sk>,
    b: Option<Sk>,
}

/// f64 as its 16-hex-digit bit pattern; NaN (0/0 of two empty sketches) has no canonical bits
fn bits(x: f64) -> String {
    if x.is_nan() {
        "nan".into()
    } else {
        format!("{:016x}", x.to_bits())
    }
}

fn regs(h: &HyperLogLog) -> Vec<u8> {
    h.to_vec().iter().map(|x| *x as u8).collect()
}

/// the estimator exactly as `cardinality` dispatches it, but returning the f64
fn mle_f64(h: &HyperLogLog, p: usize) -> f64 {
    let q = 64 - p;
    let r = regs(h);
    if p < 8 {
        estimators::mle(&estimators::counts::<u8>(&r, q), p, q, 0.01)
    } else if p < 16 {
        estimators::mle(&estimators::counts::<u16>(&r, q), p, q, 0.05)
    } else {
        estimators::mle(&estimators::counts::<u32>(&r, q), p, q, 0.1)
    }
}

fn mle_001(r: &[u8], p: usize) -> f64 {
    let q = 64 - p;
    if p < 8 {
        estimators::mle(&estimators::counts::<u8>(r, q), p, q, 0.01)
    } else if p < 16 {
        estimators::mle(&estimators::counts::<u16>(r, q), p, q, 0.01)
    } else {
        estimators::mle(&estimators::counts::<u32>(r, q), p, q, 0.01)
    }
}

fn hist(h: &HyperLogLog, p: usize) -> String {
    let q = 64 - p;
    let r = regs(h);
    if p < 8 {
        show_nats(estimators::counts::<u8>(&r, q).iter().map(|x| *x as u64))
    } else if p < 16 {
        show_nats(estimators::counts::<u16>(&r, q).iter().map(|x| *x as u64))
    } else {
        show_nats(estimators::counts::<u32>(&r, q).iter().map(|x| *x as u64))
    }
}

/// |est - truth| <= mult * 1.04/sqrt(m) * scale + slack, in exact integer arithmetic:
/// (d - slack)^2 * m * 10^4 <= (mult * 104 * scale)^2
fn within(est: u64, truth: u64, scale: u64, p: usize, mult: u64, slack: u64) -> bool {
    let d = est.abs_diff(truth);
    if d <= slack {
        return true;
    }
    let d = (d - slack) as u128;
    let rhs = (mult * 104) as u128 * scale as u128;
    // d^2 * m * 10^4 <= rhs^2 ; d < 2^64 so compare through a quotient to stay inside u128
    let lhs_m = (1u128 << p) * 10_000;
    // d^2 * lhs_m <= rhs^2  <=>  d * d <= rhs^2 / lhs_m (floor) when d*d fits
    match d.checked_mul(d).and_then(|x| x.checked_mul(lhs_m)) {
        Some(l) => match rhs.checked_mul(rhs) {
            Some(rr) => l <= rr,
            None => true,
        },
        None => false,
    }
}

fn overlap(a: &Sk, b: &Sk) -> (u64, u64) {
    // true |A ∩ B| and |A ∪ B| of the two index ranges (splitmix64 is injective)
    let lo = a.start.max(b.start);
    let hi = (a.start + a.n).min(b.start + b.n);
    let inter = hi.saturating_sub(lo);
    (inter, a.n + b.n - inter)
}

fn step(st: &mut St, ws: &[&str]) -> String {
    let which = |st: &St, w: &str| -> Option<Sk> {
        if w == "A" {
            st.a.clone()
        } else {
            st.b.clone()
        }
    };
    match ws[0] {
        "case" => "ok".into(),
        "A" | "B" => {
            let p: usize = ws[1].parse().unwrap();
            let start: u64 = ws[2].parse().unwrap();
            let n: u64 = ws[3].parse().unwrap();
            let mut h = HyperLogLog::new(p, 21).unwrap();
            for i in 0..n {
                h.add_hash(splitmix64(start + i));
            }
            let sk = Some(Sk { h, p, start, n });
            let nz = sk.as_ref().unwrap().h.to_vec().iter().filter(|x| **x != 0).count();
            if ws[0] == "A" {
                st.a = sk
            } else {
                st.b = sk
            }
            format!("nz={}", nz)
        }
        "hist" => match which(st, ws[1]) {
            Some(s) => hist(&s.h, s.p),
            None => "none".into(),
        },
        "card" => match which(st, ws[1]) {
            Some(s) => format!("card={} bits={}", s.h.cardinality(), bits(mle_f64(&s.h, s.p))),
            None => "none".into(),
        },
        "cardint" => match which(st, ws[1]) {
            Some(s) => s.h.cardinality().to_string(),
            None => "none".into(),
        },
        "bound" => match which(st, ws[1]) {
            Some(s) => {
                if within(s.h.cardinality() as u64, s.n, s.n, s.p, 6, 1) {
                    "within".into()
                } else {
                    "outside".into()
                }
            }
            None => "none".into(),
        },
        "joint" | "api" | "consist" | "jhist" | "jbound" => {
            let (a, b) = match (st.a.as_ref(), st.b.as_ref()) {
                (Some(a), Some(b)) => (a, b),
                _ => return "none".into(),
            };
            let (p, q) = (a.p, 64 - a.p);
            let (ra, rb) = (regs(&a.h), regs(&b.h));
            let (oa, ob, it) = estimators::joint_mle(&ra, &rb, p, q);
            match ws[0] {
                "joint" => format!("a={} b={} i={}", oa, ob, it),
                "api" => format!(
                    "u={} i={} s={} c={}",
                    a.h.union(&b.h),
                    a.h.intersection(&b.h),
                    bits(a.h.similarity(&b.h)),
                    bits(a.h.containment(&b.h))
                ),
                "consist" => {
                    let mut bad = vec![];
                    if a.h.union(&b.h) != oa + ob + it {
                        bad.push("union")
                    }
                    if a.h.intersection(&b.h) != it {
                        bad.push("intersection")
                    }
                    if a.h.similarity(&b.h).to_bits() != (it as f64 / (oa + ob + it) as f64).to_bits() {
                        bad.push("similarity")
                    }
                    if a.h.containment(&b.h).to_bits() != (it as f64 / (oa + it) as f64).to_bits() {
                        bad.push("containment")
                    }
                    if bad.is_empty() {
                        "consistent".into()
                    } else {
                        format!("inconsistent {}", bad.join(","))
                    }
                }
                "jhist" => {
                    let mut m = a.h.clone();
                    m.merge(&b.h).unwrap();
                    let cabx = mle_001(&regs(&m), p);
                    let (cax, cbx) = (mle_001(&ra, p), mle_001(&rb, p));
                    if (cabx - cbx) as usize == oa && (cabx - cax) as usize == ob {
                        "same".into()
                    } else {
                        "differ".into()
                    }
                }
                _ => {
                    let (ti, tu) = overlap(a, b);
                    let mut bad = vec![];
                    let u = (oa + ob + it) as u64;
                    // union() is onlyA + onlyB + max(0, inter): three differences of five estimates,
                    // with a negative intersection clipped to 0 (which biases the union of disjoint
                    // sets upwards).  Window: 10 sigma of the union size, + 1 (worst seen on the
                    // unchanged tree over 8 seeds / both tiers: 7.4 sigma at p = 4, 5.1 at p = 18).
                    if !within(u, tu, tu, p, 10, 1) {
                        bad.push("union")
                    }
                    // the intersection is a difference of estimates of size ~ |A ∪ B|: its error
                    // scales with the union, not with the intersection itself
                    if !within(it as u64, ti, tu, p, 10, 1) {
                        bad.push("intersection")
                    }
                    if bad.is_empty() {
                        "within".into()
                    } else {
                        format!("outside {}", bad.join(","))
                    }
                }
            }
        }
        _ => "bad-op".into(),
    }
}

fn main() {
    let a = args();
    match a.mode.as_str() {
        "gen" => gen(&a),
        "exec" => exec_loop(St::default, step),
        _ => panic!("mode"),
    }
}
