//! C18: HyperLogLog cardinality and overlap estimates stay within their error bound.
//!
//! Two sketches A and B per case (k = 21), filled with deterministic, pairwise distinct hashes
//! h_i = splitmix64(i) (a bijection of u64, implemented identically in Lean/Driver/C18.lean).
//! Request lines
//!   case <n> <kind>
//!   A <p> <start> <n> | B <p> <start> <n>   new(p, 21); add_hash(splitmix64(i)) for start <= i < start+n -> nz=<non-zero registers>
//!   hist A|B        estimators::counts with the width `cardinality` picks          -> comma list
//!   card A|B        cardinality() and the f64 the estimator returned               -> card=<n> bits=<16 hex | nan>
//!   cardint A|B     cardinality()                                                  -> <n>
//!   bound A|B       | cardinality() - n | <= 6 * 1.04/sqrt(m) * n + 1 ?            -> within | outside
//!   joint           estimators::joint_mle(A, B, p, q)                              -> a=<onlyA> b=<onlyB> i=<inter>
//!   api             A.union(B) A.intersection(B) A.similarity(B) A.containment(B)  -> u=.. i=.. s=<bits> c=<bits>
//!   consist         the four API answers all derive from one joint_mle triple       -> consistent | inconsistent <what>
//!   jhist           joint_mle's only-A/only-B equal mle(counts(merge(A,B))) - mle(counts(B|A)) at relerr 0.01 -> same | differ
//!   jbound          union / intersection estimates against the true sizes (10 sigma of |A ∪ B|, + 1) -> within | outside <what>
//!
//! histories: a sketch that already has content receives more, through every entry point; the true
//! set of a sketch is then a union of index ranges and every op above refers to that union
//!   add A|B <start> <n>             add_hash(splitmix64(i)) onto what is there                      -> nz=..
//!   upd A|B api|ffi <num> <start> <n>   a KmerMinHash (scaled = 1 when num = 0, else a num sketch with
//!                                   num >= n: it keeps every hash) of that range, then
//!                                   `mh.update(&mut hll)` / hll_update_mh                            -> nz=..
//!   mrg A|B                         A.merge(&B) / B.merge(&A)                                        -> nz=..
//!   reload A|B file|gz|buf          save + from_path / hll_to_buffer + from_reader / BufReader      -> nz=..
use sourmash::encodings::HashFunctions;
use sourmash::ffi::hyperloglog::{hll_to_buffer, hll_update_mh, SourmashHyperLogLog};
use sourmash::ffi::minhash::SourmashKmerMinHash;
use sourmash::ffi::utils::ForeignObject;
use sourmash::prelude::*;
use sourmash::sketch::minhash::KmerMinHash;
use sourmash::signature::SigsTrait;
use sourmash::sketch::hyperloglog::estimators;
use sourmash::sketch::hyperloglog::HyperLogLog;
use verif_harness::*;

pub fn splitmix64(i: u64) -> u64 {
    let mut z = i.wrapping_add(0x9E37_79B9_7F4A_7C15);
    z = (z ^ (z >> 30)).wrapping_mul(0xBF58_476D_1CE4_E5B9);
    z = (z ^ (z >> 27)).wrapping_mul(0x94D0_49BB_1331_11EB);
    z ^ (z >> 31)
}

// ------------------------------------------------------------------------------------ generator

/// one case = its kind and its op lines; cases are emitted in shuffled order so that the expensive
/// ones (large p, large n) are spread over the parallel workers of ./check
type Cases = Vec<(String, Vec<String>)>;

fn single(o: &mut Cases, p: u32, start: u64, n: u64) {
    o.push((
        "single".into(),
        vec![
            format!("A {} {} {}", p, start, n),
            "hist A".into(),
            "card A".into(),
            "cardint A".into(),
            "bound A".into(),
        ],
    ));
}

fn pair(o: &mut Cases, p: u32, sa: u64, na: u64, sb: u64, nb: u64, kind: &str) {
    let mut v = vec![format!("A {} {} {}", p, sa, na), format!("B {} {} {}", p, sb, nb)];
    for op in ["joint", "api", "consist", "jhist", "jbound", "bound A", "bound B"] {
        v.push(op.into());
    }
    o.push((kind.into(), v));
}

fn gen(a: &Args) {
    let mut r = Rng::new(a.seed);
    let mut o: Cases = vec![];
    let thorough = a.tier == "thorough";
    // ---- cardinality over the whole range 0 .. 64 m, every precision (all three counter widths)
    for p in 4..=18u32 {
        let m = 1u64 << p;
        let cap = if thorough { 64 * m } else { (64 * m).min(300_000) };
        let mut ns: Vec<u64> = vec![0, 1, 2, 3, 5, 10, 17, m / 4, m / 2, m - 1, m, m + 1, 2 * m, 3 * m, 5 * m, 8 * m, 16 * m, 32 * m, 64 * m];
        let extra = if thorough { 40 } else { 8 };
        for _ in 0..extra {
            // log-uniform in 1 .. 64 m
            let bits = r.range(1, (p + 6) as u64) as u32;
            ns.push(r.bits(bits).max(1));
        }
        let mut ns: Vec<u64> = ns.into_iter().map(|n| n.min(cap)).collect();
        ns.sort_unstable();
        ns.dedup();
        for n in ns {
            // the stream offset varies: different sample sets for the same n
            let start = if r.chance(1, 2) { 0 } else { r.bits(40) };
            single(&mut o, p, start, n);
        }
    }
    // small sketches, many sample sets: the u8 path and the small-range behaviour
    let many = if thorough { 4000 } else { 600 };
    for _ in 0..many {
        let p = r.range(4, 10) as u32;
        let m = 1u64 << p;
        let n = match r.below(4) {
            0 => r.range(0, 20),
            1 => r.range(0, m),
            2 => r.range(m, 8 * m),
            _ => r.range(8 * m, 64 * m),
        };
        single(&mut o, p, r.bits(48), n);
    }
    // ---- overlap regimes
    let ps: Vec<u32> = if thorough { (4..=18).collect() } else { vec![4, 5, 7, 8, 10, 12, 14, 15, 16, 18] };
    for &p in &ps {
        let m = 1u64 << p;
        let cap = if thorough { 16 * m } else { (16 * m).min(100_000) };
        let mut sizes: Vec<u64> = [m / 2, m, 4 * m, 16 * m].iter().map(|n| (*n).min(cap).max(1)).collect();
        sizes.dedup();
        for &na in &sizes {
            for &nb in &sizes {
                let s = r.bits(40);
                // disjoint
                pair(&mut o, p, s, na, s + na, nb, "disjoint");
                // partial: half of the smaller one shared
                let sh = na.min(nb) / 2;
                pair(&mut o, p, s, na, s + na - sh, nb, "partial");
                // nested: B inside A (or A inside B)
                if nb <= na {
                    pair(&mut o, p, s, na, s + r.below(na - nb + 1), nb, "nested");
                } else {
                    pair(&mut o, p, s + r.below(nb - na + 1), na, s, nb, "nested");
                }
                // identical
                if na == nb {
                    pair(&mut o, p, s, na, s, nb, "identical");
                }
            }
        }
        // empty operands
        pair(&mut o, p, 0, 0, 0, 0, "empty-empty");
        pair(&mut o, p, 0, m.min(cap), 0, 0, "nonempty-empty");
        pair(&mut o, p, 0, 0, 7, m.min(cap), "empty-nonempty");
    }
    let many = if thorough { 3000 } else { 400 };
    for _ in 0..many {
        let p = r.range(4, 11) as u32;
        let m = 1u64 << p;
        let na = r.range(1, 16 * m);
        let nb = r.range(1, 16 * m);
        let s = r.bits(44);
        // a random overlap: B starts somewhere in [s, s + na]
        let off = r.below(na + 1);
        let kind = if off == na { "disjoint" } else if off + nb <= na { "nested" } else { "partial" };
        pair(&mut o, p, s, na, s + off, nb, kind);
    }
    // ---- histories: a non-empty receiver updated from a MinHash with ~m .. 10m new hashes, further
    // add_hash calls, merges; the estimates must sit in the window of the TRUE union size
    for p in 4..=18u32 {
        let m = 1u64 << p;
        let (cap0, cap1) = if thorough { (4 * m, 16 * m) } else { (30_000, 60_000) };
        for &n0 in &[m / 2, 2 * m] {
            for &n1 in &[m, 10 * m] {
                for rel in 0..2 {
                    let (n0, n1) = (n0.min(cap0), n1.min(cap1));
                    let s = r.bits(40);
                    // the update is disjoint from the receiver's set, or shares half of the smaller one
                    let s1 = if rel == 0 { s + n0 + r.below(1000) } else { s + n0 - n0.min(n1) / 2 };
                    let api = if r.chance(1, 2) { "api" } else { "ffi" };
                    let num = if r.chance(1, 3) { n1 + r.below(3) } else { 0 };
                    let mut v = vec![format!("A {} {} {}", p, s, n0), format!("upd A {} {} {} {}", api, num, s1, n1)];
                    for op in ["hist A", "card A", "cardint A", "bound A"] {
                        v.push(op.into());
                    }
                    // B: the same union sketched by plain add_hash, plus something on top now and then
                    let lo = s.min(s1);
                    let hi = (s + n0).max(s1 + n1);
                    let extra = if r.chance(1, 2) { 0 } else { r.below(m.min(cap0)) };
                    v.push(format!("B {} {} {}", p, lo, hi - lo + extra));
                    for op in ["joint", "api", "consist", "jhist", "jbound"] {
                        v.push(op.into());
                    }
                    o.push(("upd-nonempty".into(), v));
                }
            }
        }
        // longer histories: update into empty, add more, update again, merge another sketch
        let reps = if thorough { 6 } else { 2 };
        for _ in 0..reps {
            let unit = m.min(if thorough { 4 * m } else { 12_000 });
            let s = r.bits(40);
            let mut v = vec![format!("A {} {} 0", p, s)];
            let mut at = s;
            for step in 0..r.range(3, 5) {
                let n = r.range(unit / 2, 2 * unit).max(1);
                // sometimes step back into what is already there
                let from = if r.chance(1, 3) { at.saturating_sub(r.below(n)) .max(s) } else { at + r.below(50) };
                match (step + r.below(2)) % 3 {
                    0 => v.push(format!("upd A {} {} {} {}", if r.chance(1, 2) { "api" } else { "ffi" }, if r.chance(1, 3) { n } else { 0 }, from, n)),
                    1 => v.push(format!("add A {} {}", from, n)),
                    _ => {
                        v.push(format!("B {} {} {}", p, from, n));
                        v.push("mrg A".into());
                    }
                }
                at = at.max(from + n);
                if r.chance(1, 2) {
                    v.push("bound A".into());
                }
            }
            for op in ["hist A", "card A", "bound A"] {
                v.push(op.into());
            }
            v.push(format!("B {} {} {}", p, s + r.below(unit), unit));
            v.push(format!("upd B api 0 {} {}", at, unit));
            for op in ["joint", "api", "consist", "jhist", "jbound", "bound B"] {
                v.push(op.into());
            }
            o.push(("history".into(), v));
        }
        // estimates of a sketch that went through save / load
        for route in ["file", "gz", "buf"] {
            let n = r.range(m, 4 * m).min(if thorough { 4 * m } else { 60_000 });
            let s = r.bits(40);
            let mut v = vec![format!("A {} {} {}", p, s, n), format!("reload A {}", route)];
            for op in ["hist A", "card A", "bound A"] {
                v.push(op.into());
            }
            v.push(format!("B {} {} {}", p, s + n / 2, n));
            v.push(format!("reload B {}", *r.pick(&["file", "gz", "buf"])));
            for op in ["joint", "api", "consist", "jbound"] {
                v.push(op.into());
            }
            o.push(("reload".into(), v));
        }
    }
    for i in (1..o.len()).rev() {
        let j = r.below(i as u64 + 1) as usize;
        o.swap(i, j);
    }
    let mut out = Out::new();
    for (kind, ops) in &o {
        out.case(kind);
        for l in ops {
            out.op(l);
        }
    }
}

// ------------------------------------------------------------------------------------ exec

#[derive(Clone)]
struct Sk {
    h: HyperLogLog,
    p: usize,
    /// the true set: the union of these index ranges (start, n) of the splitmix64 stream
    ranges: Vec<(u64, u64)>,
}

/// size of a union of index ranges
fn union_size(ranges: &[(u64, u64)]) -> u64 {
    let mut v: Vec<(u64, u64)> = ranges.iter().filter(|r| r.1 > 0).map(|r| (r.0, r.0 + r.1)).collect();
    v.sort_unstable();
    let (mut total, mut end) = (0u64, 0u64);
    for (lo, hi) in v {
        let lo = lo.max(end);
        if hi > lo {
            total += hi - lo;
            end = hi;
        }
    }
    total
}

impl Sk {
    fn n(&self) -> u64 {
        union_size(&self.ranges)
    }
}

fn nz(h: &HyperLogLog) -> usize {
    h.to_vec().iter().filter(|x| **x != 0).count()
}
#[derive(Default)]
struct St {
    a: Option<Sk>,
    b: Option<Sk>,
}

/// f64 as its 16-hex-digit bit pattern; NaN (0/0 of two empty sketches) has no canonical bits
fn bits(x: f64) -> String {
    if x.is_nan() {
        "nan".into()
    } else {
        format!("{:016x}", x.to_bits())
    }
}

fn regs(h: &HyperLogLog) -> Vec<u8> {
    h.to_vec().iter().map(|x| *x as u8).collect()
}

/// the estimator exactly as `cardinality` dispatches it, but returning the f64
fn mle_f64(h: &HyperLogLog, p: usize) -> f64 {
    let q = 64 - p;
    let r = regs(h);
    if p < 8 {
        estimators::mle(&estimators::counts::<u8>(&r, q), p, q, 0.01)
    } else if p < 16 {
        estimators::mle(&estimators::counts::<u16>(&r, q), p, q, 0.05)
    } else {
        estimators::mle(&estimators::counts::<u32>(&r, q), p, q, 0.1)
    }
}

fn mle_001(r: &[u8], p: usize) -> f64 {
    let q = 64 - p;
    if p < 8 {
        estimators::mle(&estimators::counts::<u8>(r, q), p, q, 0.01)
    } else if p < 16 {
        estimators::mle(&estimators::counts::<u16>(r, q), p, q, 0.01)
    } else {
        estimators::mle(&estimators::counts::<u32>(r, q), p, q, 0.01)
    }
}

fn hist(h: &HyperLogLog, p: usize) -> String {
    let q = 64 - p;
    let r = regs(h);
    if p < 8 {
        show_nats(estimators::counts::<u8>(&r, q).iter().map(|x| *x as u64))
    } else if p < 16 {
        show_nats(estimators::counts::<u16>(&r, q).iter().map(|x| *x as u64))
    } else {
        show_nats(estimators::counts::<u32>(&r, q).iter().map(|x| *x as u64))
    }
}

/// |est - truth| <= mult * 1.04/sqrt(m) * scale + slack, in exact integer arithmetic:
/// (d - slack)^2 * m * 10^4 <= (mult * 104 * scale)^2
fn within(est: u64, truth: u64, scale: u64, p: usize, mult: u64, slack: u64) -> bool {
    let d = est.abs_diff(truth);
    if d <= slack {
        return true;
    }
    let d = (d - slack) as u128;
    let rhs = (mult * 104) as u128 * scale as u128;
    // d^2 * m * 10^4 <= rhs^2 ; d < 2^64 so compare through a quotient to stay inside u128
    let lhs_m = (1u128 << p) * 10_000;
    // d^2 * lhs_m <= rhs^2  <=>  d * d <= rhs^2 / lhs_m (floor) when d*d fits
    match d.checked_mul(d).and_then(|x| x.checked_mul(lhs_m)) {
        Some(l) => match rhs.checked_mul(rhs) {
            Some(rr) => l <= rr,
            None => true,
        },
        None => false,
    }
}

fn overlap(a: &Sk, b: &Sk) -> (u64, u64) {
    // true |A ∩ B| and |A ∪ B| of the two unions of index ranges (splitmix64 is injective)
    let mut all = a.ranges.clone();
    all.extend_from_slice(&b.ranges);
    let union = union_size(&all);
    (a.n() + b.n() - union, union)
}

fn step(st: &mut St, ws: &[&str]) -> String {
    let which = |st: &St, w: &str| -> Option<Sk> {
        if w == "A" {
            st.a.clone()
        } else {
            st.b.clone()
        }
    };
    match ws[0] {
        "case" => "ok".into(),
        "A" | "B" => {
            let p: usize = ws[1].parse().unwrap();
            let start: u64 = ws[2].parse().unwrap();
            let n: u64 = ws[3].parse().unwrap();
            let mut h = HyperLogLog::new(p, 21).unwrap();
            for i in 0..n {
                h.add_hash(splitmix64(start + i));
            }
            let sk = Some(Sk { h, p, ranges: vec![(start, n)] });
            let nz = nz(&sk.as_ref().unwrap().h);
            if ws[0] == "A" {
                st.a = sk
            } else {
                st.b = sk
            }
            format!("nz={}", nz)
        }
        "add" | "upd" | "reload" => {
            let sk = match if ws[1] == "A" { st.a.as_mut() } else { st.b.as_mut() } {
                Some(s) => s,
                None => return "none".into(),
            };
            match ws[0] {
                "add" => {
                    let (start, n): (u64, u64) = (ws[2].parse().unwrap(), ws[3].parse().unwrap());
                    for i in 0..n {
                        sk.h.add_hash(splitmix64(start + i));
                    }
                    sk.ranges.push((start, n));
                }
                "upd" => {
                    let (num, start, n): (u32, u64, u64) = (ws[3].parse().unwrap(), ws[4].parse().unwrap(), ws[5].parse().unwrap());
                    let mut hs: Vec<u64> = (0..n).map(|i| splitmix64(start + i)).collect();
                    hs.sort_unstable();
                    let mut mh = KmerMinHash::new(if num == 0 { 1 } else { 0 }, 21, HashFunctions::Murmur64Dna, 42, false, num);
                    for h in &hs {
                        mh.add_hash(*h);
                    }
                    assert_eq!(mh.mins().len() as u64, n);
                    if ws[2] == "ffi" {
                        unsafe { hll_update_mh(&mut sk.h as *mut HyperLogLog as *mut SourmashHyperLogLog, SourmashKmerMinHash::from_ref(&mh)) };
                    } else {
                        mh.update(&mut sk.h).unwrap();
                    }
                    sk.ranges.push((start, n));
                }
                _ => {
                    let dir = tempfile::Builder::new().prefix("verif-c18-").tempdir().unwrap();
                    let path = dir.path().join("x.hll");
                    let loaded = match ws[2] {
                        "file" => {
                            sk.h.save(&path).unwrap();
                            HyperLogLog::from_path(&path)
                        }
                        "gz" => unsafe {
                            let mut size = 0usize;
                            let ptr = hll_to_buffer(SourmashHyperLogLog::from_ref(&sk.h), &mut size);
                            assert!(!ptr.is_null());
                            let buf = Vec::from_raw_parts(ptr as *mut u8, size, size);
                            HyperLogLog::from_reader(&buf[..])
                        },
                        _ => {
                            let mut buf = vec![];
                            sk.h.save_to_writer(&mut buf).unwrap();
                            HyperLogLog::from_reader(std::io::BufReader::new(&buf[..]))
                        }
                    };
                    match loaded {
                        Ok(h) => sk.h = h,
                        Err(e) => return format!("err {:?}", e).split(['(', ' ', '{']).take(2).collect::<Vec<_>>().join(" "),
                    }
                }
            }
            format!("nz={}", nz(&sk.h))
        }
        "mrg" => {
            let (dst, src) = if ws[1] == "A" { (st.a.as_mut(), st.b.as_ref()) } else { (st.b.as_mut(), st.a.as_ref()) };
            match (dst, src) {
                (Some(d), Some(s)) => {
                    d.h.merge(&s.h).unwrap();
                    d.ranges.extend_from_slice(&s.ranges);
                    format!("nz={}", nz(&d.h))
                }
                _ => "none".into(),
            }
        }
        "hist" => match which(st, ws[1]) {
            Some(s) => hist(&s.h, s.p),
            None => "none".into(),
        },
        "card" => match which(st, ws[1]) {
            Some(s) => format!("card={} bits={}", s.h.cardinality(), bits(mle_f64(&s.h, s.p))),
            None => "none".into(),
        },
        "cardint" => match which(st, ws[1]) {
            Some(s) => s.h.cardinality().to_string(),
            None => "none".into(),
        },
        "bound" => match which(st, ws[1]) {
            Some(s) => {
                if within(s.h.cardinality() as u64, s.n(), s.n(), s.p, 6, 1) {
                    "within".into()
                } else {
                    "outside".into()
                }
            }
            None => "none".into(),
        },
        "joint" | "api" | "consist" | "jhist" | "jbound" => {
            let (a, b) = match (st.a.as_ref(), st.b.as_ref()) {
                (Some(a), Some(b)) => (a, b),
                _ => return "none".into(),
            };
            let (p, q) = (a.p, 64 - a.p);
            let (ra, rb) = (regs(&a.h), regs(&b.h));
            let (oa, ob, it) = estimators::joint_mle(&ra, &rb, p, q);
            match ws[0] {
                "joint" => format!("a={} b={} i={}", oa, ob, it),
                "api" => format!(
                    "u={} i={} s={} c={}",
                    a.h.union(&b.h),
                    a.h.intersection(&b.h),
                    bits(a.h.similarity(&b.h)),
                    bits(a.h.containment(&b.h))
                ),
                "consist" => {
                    let mut bad = vec![];
                    if a.h.union(&b.h) != oa + ob + it {
                        bad.push("union")
                    }
                    if a.h.intersection(&b.h) != it {
                        bad.push("intersection")
                    }
                    if a.h.similarity(&b.h).to_bits() != (it as f64 / (oa + ob + it) as f64).to_bits() {
                        bad.push("similarity")
                    }
                    if a.h.containment(&b.h).to_bits() != (it as f64 / (oa + it) as f64).to_bits() {
                        bad.push("containment")
                    }
                    if bad.is_empty() {
                        "consistent".into()
                    } else {
                        format!("inconsistent {}", bad.join(","))
                    }
                }
                "jhist" => {
                    let mut m = a.h.clone();
                    m.merge(&b.h).unwrap();
                    let cabx = mle_001(&regs(&m), p);
                    let (cax, cbx) = (mle_001(&ra, p), mle_001(&rb, p));
                    if (cabx - cbx) as usize == oa && (cabx - cax) as usize == ob {
                        "same".into()
                    } else {
                        "differ".into()
                    }
                }
                _ => {
                    let (ti, tu) = overlap(a, b);
                    let mut bad = vec![];
                    let u = (oa + ob + it) as u64;
                    // union() is onlyA + onlyB + max(0, inter): three differences of five estimates,
                    // with a negative intersection clipped to 0 (which biases the union of disjoint
                    // sets upwards).  Window: 10 sigma of the union size, + 1 (worst seen on the
                    // unchanged tree over 8 seeds / both tiers: 7.4 sigma at p = 4, 5.1 at p = 18).
                    if !within(u, tu, tu, p, 10, 1) {
                        bad.push("union")
                    }
                    // the intersection is a difference of estimates of size ~ |A ∪ B|: its error
                    // scales with the union, not with the intersection itself
                    if !within(it as u64, ti, tu, p, 10, 1) {
                        bad.push("intersection")
                    }
                    if bad.is_empty() {
                        "within".into()
                    } else {
                        format!("outside {}", bad.join(","))
                    }
                }
            }
        }
        _ => "bad-op".into(),
    }
}

fn main() {
    let a = args();
    match a.mode.as_str() {
        "gen" => gen(&a),
        "exec" => exec_loop(St::default, step),
        _ => panic!("mode"),
    }
}
