//! C18: HyperLogLog cardinality and overlap estimates stay within their error bound.
//!
//! Two sketches A and B per case (k = 21), filled with deterministic, pairwise distinct hashes
//! h_i = splitmix64(i) (a bijection of u64, implemented identically in Lean/Driver/C18.lean).
//! Request lines
//!   case <n> <kind>
//!   A <p> <start> <n> | B <p> <start> <n>   new(p, 21); add_hash(splitmix64(i)) for start <= i < start+n -> nz=<non-zero registers>
//!   A <p> <start> <n> <k> | B …             the same with new(p, k)
//!   hist A|B        estimators::counts with the width `cardinality` picks          -> comma list
//!   card A|B        cardinality() and the f64 the estimator returned               -> card=<n> bits=<16 hex | nan>
//!   cardint A|B     cardinality()                                                  -> <n>
//!   bound A|B       | cardinality() - n | <= c * 1.04/sqrt(m) * n + 1 ?  (c = 6; 8 for p = 6, 7; 11 for p = 5; 14 for p = 4) -> within | outside
//!   joint           estimators::joint_mle(A, B, p, q)                              -> a=<onlyA> b=<onlyB> i=<inter>
//!   api             A.union(B) A.intersection(B) A.similarity(B) A.containment(B)  -> u=.. i=.. s=<bits> c=<bits>
//!   consist         the four API answers all derive from one joint_mle triple       -> consistent | inconsistent <what>
//!   jhist           joint_mle's only-A/only-B equal mle(counts(merge(A,B))) - mle(counts(B|A)) at relerr 0.01 -> same | differ
//!   jbound          union / intersection estimates against the true sizes (10 sigma of |A ∪ B|, + 1; 13 sigma for p = 5, 16 for p = 4) -> within | outside <what>
//!
//! histories: a sketch that already has content receives more, through every entry point; the true
//! set of a sketch is then a union of index ranges and every op above refers to that union
//!   add A|B <start> <n>             add_hash(splitmix64(i)) onto what is there                      -> nz=..
//!   upd A|B api|ffi <num> <start> <n>   a KmerMinHash (scaled = 1 when num = 0, else a num sketch with
//!                                   num >= n: it keeps every hash) of that range, then
//!                                   `mh.update(&mut hll)` / hll_update_mh                            -> nz=..
//!   mrg A|B                         A.merge(&B) / B.merge(&A)                                        -> nz=..
//!   reload A|B file|gz|buf          save + from_path / hll_to_buffer + from_reader / BufReader      -> nz=..
//!   addmany A|B <start> <n>         add_many(&[splitmix64(i)..])                                     -> nz=..
//!   addffi A|B <start> <n>          hll_add_hash (C API) per hash                                    -> nz=..
//!   addseq A|B api|ffi <dna>        add_sequence(dna, false) / hll_add_sequence; the true set grows by the
//!                                   distinct canonical 21-mer hashes (counted with a scaled=1 KmerMinHash) -> nz=..
//!   mrgffi A|B                      hll_merge (C API)                                                -> nz=..
//!   mrgx A|B, mrgxffi A|B           merge / hll_merge that may be REFUSED (the other sketch has another precision or
//!                                   another k): `ok nz=..` / `err MismatchNum` / `err MismatchKSizes`; after a refusal
//!                                   the receiver holds what it held (every estimate asked afterwards is judged
//!                                   against the unchanged true set: still 0 for an empty receiver)
//!   addh A|B <route> <h1,h2,..>     explicit hashes - SMALL and STRUCTURED ones (0, 1, 2^k-1, 2^k, 2^k+1, values below
//!                                   2^(p-1) / 2^p, all-ones), which no random stream ever produces - through
//!                                   add_hash (api), add_many (many), hll_add_hash (ffi), a scaled=1 KmerMinHash +
//!                                   update (mh) or a num MinHash that keeps everything (mhn); the true set grows
//!                                   by the distinct ones (the generator keeps the low p bits of the hashes of one
//!                                   list pairwise distinct: they are distinct elements in distinct registers, as
//!                                   for a uniform hash function; their ranks are whatever they are)          -> nz=..
//!
//! Every estimate is asked ON THE SKETCH OBJECT ITSELF (never on a copy), so that an answer that does
//! not follow the registers - something remembered from before the last mutation - is observed:
//!   cardffi A|B     hll_cardinality                                                -> <n>
//!   apiffi          hll_intersection_size, hll_similarity, hll_containment          -> i=.. s=<bits> c=<bits>
//!   fresh A|B       cardinality() / hll_cardinality of the object against the same calls on a sketch freshly
//!                   loaded from its saved bytes (same registers, no history)        -> same | differ <obj> <fresh>
//!   freshj          union/intersection/similarity/containment (native and C API) of the two objects, both
//!                   orders, against the freshly loaded pair                          -> same | differ <what>
use sourmash::encodings::HashFunctions;
use sourmash::ffi::hyperloglog::{
    hll_add_hash, hll_add_sequence, hll_cardinality, hll_containment, hll_intersection_size, hll_merge, hll_similarity, hll_to_buffer,
    hll_update_mh, SourmashHyperLogLog,
};
use std::os::raw::c_char;
use sourmash::ffi::minhash::SourmashKmerMinHash;
use sourmash::ffi::utils::{ForeignObject, LAST_ERROR};
use sourmash::prelude::*;
use sourmash::sketch::minhash::KmerMinHash;
use sourmash::signature::SigsTrait;
use sourmash::sketch::hyperloglog::estimators;
use sourmash::sketch::hyperloglog::HyperLogLog;
use verif_harness::*;

pub fn splitmix64(i: u64) -> u64 {
    let mut z = i.wrapping_add(0x9E37_79B9_7F4A_7C15);
    z = (z ^ (z >> 30)).wrapping_mul(0xBF58_476D_1CE4_E5B9);
    z = (z ^ (z >> 27)).wrapping_mul(0x94D0_49BB_1331_11EB);
    z ^ (z >> 31)
}

// ------------------------------------------------------------------------------------ generator

/// one case = its kind and its op lines; cases are emitted in shuffled order so that the expensive
/// ones (large p, large n) are spread over the parallel workers of ./check
type Cases = Vec<(String, Vec<String>)>;

fn single(o: &mut Cases, p: u32, start: u64, n: u64) {
    o.push((
        "single".into(),
        vec![
            format!("A {} {} {}", p, start, n),
            "hist A".into(),
            "card A".into(),
            "cardint A".into(),
            "bound A".into(),
        ],
    ));
}

fn pair(o: &mut Cases, p: u32, sa: u64, na: u64, sb: u64, nb: u64, kind: &str) {
    let mut v = vec![format!("A {} {} {}", p, sa, na), format!("B {} {} {}", p, sb, nb)];
    for op in ["joint", "api", "consist", "jhist", "jbound", "bound A", "bound B"] {
        v.push(op.into());
    }
    o.push((kind.into(), v));
}

/// one small / structured hash for a sketch of precision p
fn structured_hash(r: &mut Rng, p: u32) -> u64 {
    let k = r.range(0, 63) as u32;
    match r.below(12) {
        0 => 0,
        1 => 1,
        2 => u64::MAX,
        3 => (1u64 << k).wrapping_sub(1),
        4 => 1u64 << k,
        5 => (1u64 << k) + 1,
        6 => r.below(1 << (p - 1)),
        7 => (1 << (p - 1)) + r.below(1 << (p - 1)),
        8 => r.below(1 << (p + 3)),
        9 => r.range(2, 9),
        10 => u64::MAX - r.below(1 << p),
        _ => r.bits(64),
    }
}

/// up to `want` such hashes whose low p bits are pairwise distinct (and differ from those in `avoid`)
fn structured_set(r: &mut Rng, p: u32, want: u64, first: &[u64], avoid: &[u64]) -> Vec<u64> {
    let mask = (1u64 << p) - 1;
    let mut v: Vec<u64> = vec![];
    let mut cands: Vec<u64> = first.to_vec();
    for _ in 0..(4 * want) {
        cands.push(structured_hash(r, p));
    }
    for h in cands {
        if (v.len() as u64) < want.max(first.len() as u64) && !v.iter().chain(avoid.iter()).any(|x| x & mask == h & mask) {
            v.push(h);
        }
    }
    v
}

const HROUTES: [&str; 5] = ["api", "many", "ffi", "mh", "mhn"];

fn structured_cases(o: &mut Cases, r: &mut Rng, thorough: bool) {
    // (1) every k at every p: 2^k - 1, 2^k, 2^k + 1 (low p bits: all ones / 0 / 1 for k >= p, the values
    // themselves below), into an empty sketch or next to a random stream
    for p in 4..=18u32 {
        let m = 1u64 << p;
        for k in 0..=63u32 {
            if !thorough && (k + p) % 2 == 1 && k > p + 1 && k < 62 {
                continue; // quick: every k up to p + 1 (the saturating ones), every second one above
            }
            let trio: Vec<u64> = if k == 0 { vec![0, 1, 2] } else { vec![(1u64 << k) - 1, 1u64 << k, (1u64 << k) + 1] };
            let n0 = match (k + p) % 3 {
                0 => 0,
                1 => r.range(1, m / 2),
                _ => r.range(m, 4 * m),
            }
            .min(if thorough { 20_000 } else { 3_000 });
            let s = r.bits(40);
            let mut v = vec![format!("A {} {} {}", p, s, n0), (if r.chance(1, 2) { "cardint A" } else { "cardffi A" }).into()];
            v.push(format!("addh A {} {}", HROUTES[((k + p) % 5) as usize], show_nats(trio.iter().copied())));
            for op in ["cardint A", "cardffi A", "bound A", "fresh A"] {
                v.push(op.into());
            }
            if k % 4 == 0 {
                v.push("hist A".into());
                v.push("card A".into());
            }
            if (k + p) % 4 == 0 {
                // a second sketch that shares the middle one
                v.push(format!("B {} {} {}", p, s + n0 / 2, n0));
                v.push(format!("addh B {} {}", HROUTES[((k + 2) % 5) as usize], trio[1]));
                for op in ["api", "apiffi", "consist", "jhist", "jbound", "freshj", "bound B"] {
                    v.push(op.into());
                }
            }
            o.push(("pow2".into(), v));
        }
    }
    // (2) random structured sets: alone (the whole true set is small hashes) and among random streams,
    // every entry point, both operands of the overlap queries, merges, reloads
    let many = if thorough { 6000 } else { 700 };
    for c in 0..many {
        let p = if c % 3 == 0 { r.range(4, 18) as u32 } else { r.range(4, 12) as u32 };
        let m = 1u64 << p;
        let cap = if thorough { 40_000 } else { 6_000 };
        // every register such a hash saturates is 1/m of the sketch's evidence: at most m/16 of them (1 at p = 4,
        // 2 at p = 5, 4 at p = 6, then 6) per sketch, so that they stay a perturbation the windows were sized for
        let wmax = (m / 16).clamp(1, 6);
        let want = r.range(1, wmax);
        let alone = c % 4 == 0;
        let n0 = if alone { 0 } else { r.range(m / 4, 4 * m).min(cap) };
        let s = r.bits(40);
        let first: &[u64] = match c % 7 {
            0 => &[0],
            1 => &[1],
            2 => &[5],
            3 => &[u64::MAX],
            _ => &[],
        };
        let sa = structured_set(r, p, want, first, &[]);
        let mut v = vec![format!("A {} {} {}", p, s, n0)];
        v.push((if r.chance(1, 2) { "cardint A" } else { "cardffi A" }).into());
        // in one call or one by one, asking in between
        if r.chance(1, 2) || sa.len() == 1 {
            v.push(format!("addh A {} {}", r.pick(&HROUTES), show_nats(sa.iter().copied())));
        } else {
            for h in &sa {
                v.push(format!("addh A {} {}", r.pick(&HROUTES), h));
                v.push((if r.chance(1, 2) { "cardint A" } else { "bound A" }).into());
            }
        }
        for op in ["cardint A", "cardffi A", "bound A", "fresh A"] {
            v.push(op.into());
        }
        if r.chance(1, 3) {
            v.push("card A".into());
            v.push("hist A".into());
        }
        // the other operand: shares part of the structured set, has some of its own
        let nb = if alone && r.chance(1, 2) { 0 } else { r.range(m / 4, 2 * m).min(cap) };
        let sb_start = if r.chance(1, 2) { s + n0 / 2 } else { s + n0 + r.below(100) };
        v.push(format!("B {} {} {}", p, sb_start, nb));
        let shared: Vec<u64> = sa.iter().copied().filter(|_| r.chance(1, 2)).collect();
        let nown = r.range(0, 2.min(wmax));
        let own = structured_set(r, p, nown, &[], &sa);
        let mut sb = shared.clone();
        sb.extend(own);
        sb.truncate(wmax as usize);
        if !sb.is_empty() {
            v.push(format!("addh B {} {}", r.pick(&HROUTES), show_nats(sb.iter().copied())));
        }
        for op in ["bound B", "joint", "api", "apiffi", "consist", "jhist", "jbound", "freshj"] {
            v.push(op.into());
        }
        // and on: the structured hashes again (nothing new), a merge, a reload, more of the stream
        match r.below(4) {
            0 => {
                v.push(format!("addh A {} {}", r.pick(&HROUTES), show_nats(sa.iter().rev().copied())));
                v.push("bound A".into());
            }
            1 => {
                v.push((if r.chance(1, 2) { "mrg A" } else { "mrgffi A" }).into());
                v.push("bound A".into());
                v.push("fresh A".into());
                v.push("jbound".into());
            }
            2 => {
                v.push(format!("reload A {}", *r.pick(&["file", "gz", "buf"])));
                v.push("cardint A".into());
                v.push("bound A".into());
                v.push("api".into());
            }
            _ => {
                let n = r.range(1, m).min(cap);
                v.push(format!("add A {} {}", s + n0 + 200, n));
                v.push("bound A".into());
                v.push("fresh A".into());
                v.push("jbound".into());
            }
        }
        o.push(((if alone { "small-alone" } else { "small-among" }).into(), v));
    }
}

/// precision and k of a sketch that a (p, k) sketch must refuse to merge with
fn other_shape(r: &mut Rng, p: u32, k: u32) -> (u32, u32) {
    let other_k = |r: &mut Rng| loop {
        let x = *r.pick(&[21u32, 31, 51, 7]);
        if x != k {
            break x;
        }
    };
    let other_p = |r: &mut Rng| loop {
        let x = match r.below(5) {
            0 => p + 1,
            1 => p.saturating_sub(1),
            2 => p + 2,
            3 => p.saturating_sub(2),
            _ => r.range(4, 18) as u32,
        };
        if x != p && (4..=18).contains(&x) {
            break x;
        }
    };
    match r.below(6) {
        0 => (p, other_k(r)),
        1 => (other_p(r), other_k(r)),
        _ => (other_p(r), k),
    }
}

/// MERGE-MISMATCH histories: a receiver - still empty (the usual union accumulator) or not - is handed
/// sketches of another precision and / or another k, natively and through the C API; every such merge is
/// refused and every estimate asked on the receiver afterwards is the one of what it held before; it is
/// then used on (more hashes, a compatible merge) and asked again
fn mismatch_cases(o: &mut Cases, r: &mut Rng, thorough: bool) {
    let reps = if thorough { 12 } else { 4 };
    for p in 4..=18u32 {
        let m = 1u64 << p;
        let cap = if thorough { 4 * m } else { 12_000 };
        for rep in 0..reps {
            let s = r.bits(40);
            let ka = *r.pick(&[21u32, 21, 31]);
            let n0 = if rep % 2 == 0 { 0 } else { r.range((m / 4).max(1), 2 * m).min(cap) };
            let mut v = vec![format!("A {} {} {} {}", p, s, n0, ka)];
            v.push((if r.chance(1, 2) { "cardint A" } else { "cardffi A" }).into());
            let mut at = s + n0;
            for round in 0..r.range(2, 3) {
                let (p2, k2) = other_shape(r, p, ka);
                let m2 = 1u64 << p2;
                // the other sketch: what it holds overlaps A's set or not
                let nb = r.range(1, 4 * m2).min(cap).max(1);
                let sb = if r.chance(1, 2) { s + r.below(n0 + 1) } else { at + r.below(1000) };
                v.push(format!("B {} {} {} {}", p2, sb, nb, k2));
                if r.chance(1, 2) {
                    v.push("bound B".into());
                }
                v.push((if r.chance(1, 2) { "mrgx A" } else { "mrgxffi A" }).into());
                for op in ["cardint A", "cardffi A", "bound A", "fresh A"] {
                    v.push(op.into());
                }
                if r.chance(1, 2) {
                    v.push("card A".into());
                    v.push("hist A".into());
                }
                if r.chance(1, 2) {
                    // the other way round: a non-empty receiver of the other shape
                    v.push((if r.chance(1, 2) { "mrgx B" } else { "mrgxffi B" }).into());
                    v.push("cardint B".into());
                    v.push("bound B".into());
                    v.push("fresh B".into());
                }
                // keep using the receiver (the first round of an empty one now and then stays empty)
                if round > 0 || n0 > 0 || r.chance(1, 2) {
                    let n = r.range((m / 4).max(1), m).min(cap);
                    v.push(format!("{} A {} {}", *r.pick(&["add", "addmany", "addffi"]), at, n));
                    at += n;
                    v.push("bound A".into());
                    v.push("fresh A".into());
                }
            }
            // a compatible sketch is accepted
            let n = r.range((m / 4).max(1), 2 * m).min(cap);
            v.push(format!("B {} {} {} {}", p, at - r.below((at - s) / 2 + 1), n, ka));
            v.push((if r.chance(1, 2) { "mrgx A" } else { "mrgxffi A" }).into());
            for op in ["cardint A", "bound A", "fresh A", "api", "apiffi", "consist", "jbound", "freshj"] {
                v.push(op.into());
            }
            o.push(("merge-mismatch".into(), v));
        }
    }
}

fn gen(a: &Args) {
    let mut r = Rng::new(a.seed);
    let mut o: Cases = vec![];
    let thorough = a.tier == "thorough";
    // ---- cardinality over the whole range 0 .. 64 m, every precision (all three counter widths)
    for p in 4..=18u32 {
        let m = 1u64 << p;
        let cap = if thorough { 64 * m } else { (64 * m).min(300_000) };
        let mut ns: Vec<u64> = vec![0, 1, 2, 3, 5, 10, 17, m / 4, m / 2, m - 1, m, m + 1, 2 * m, 3 * m, 5 * m, 8 * m, 16 * m, 32 * m, 64 * m];
        let extra = if thorough { 40 } else { 8 };
        for _ in 0..extra {
            // log-uniform in 1 .. 64 m
            let bits = r.range(1, (p + 6) as u64) as u32;
            ns.push(r.bits(bits).max(1));
        }
        let mut ns: Vec<u64> = ns.into_iter().map(|n| n.min(cap)).collect();
        ns.sort_unstable();
        ns.dedup();
        for n in ns {
            // the stream offset varies: different sample sets for the same n
            let start = if r.chance(1, 2) { 0 } else { r.bits(40) };
            single(&mut o, p, start, n);
        }
    }
    // small sketches, many sample sets: the u8 path and the small-range behaviour
    let many = if thorough { 4000 } else { 600 };
    for _ in 0..many {
        let p = r.range(4, 10) as u32;
        let m = 1u64 << p;
        let n = match r.below(4) {
            0 => r.range(0, 20),
            1 => r.range(0, m),
            2 => r.range(m, 8 * m),
            _ => r.range(8 * m, 64 * m),
        };
        single(&mut o, p, r.bits(48), n);
    }
    // ---- overlap regimes
    let ps: Vec<u32> = if thorough { (4..=18).collect() } else { vec![4, 5, 7, 8, 10, 12, 14, 15, 16, 18] };
    for &p in &ps {
        let m = 1u64 << p;
        let cap = if thorough { 16 * m } else { (16 * m).min(100_000) };
        let mut sizes: Vec<u64> = [m / 2, m, 4 * m, 16 * m].iter().map(|n| (*n).min(cap).max(1)).collect();
        sizes.dedup();
        for &na in &sizes {
            for &nb in &sizes {
                let s = r.bits(40);
                // disjoint
                pair(&mut o, p, s, na, s + na, nb, "disjoint");
                // partial: half of the smaller one shared
                let sh = na.min(nb) / 2;
                pair(&mut o, p, s, na, s + na - sh, nb, "partial");
                // nested: B inside A (or A inside B)
                if nb <= na {
                    pair(&mut o, p, s, na, s + r.below(na - nb + 1), nb, "nested");
                } else {
                    pair(&mut o, p, s + r.below(nb - na + 1), na, s, nb, "nested");
                }
                // identical
                if na == nb {
                    pair(&mut o, p, s, na, s, nb, "identical");
                }
            }
        }
        // empty operands
        pair(&mut o, p, 0, 0, 0, 0, "empty-empty");
        pair(&mut o, p, 0, m.min(cap), 0, 0, "nonempty-empty");
        pair(&mut o, p, 0, 0, 7, m.min(cap), "empty-nonempty");
    }
    let many = if thorough { 3000 } else { 400 };
    for _ in 0..many {
        let p = r.range(4, 11) as u32;
        let m = 1u64 << p;
        let na = r.range(1, 16 * m);
        let nb = r.range(1, 16 * m);
        let s = r.bits(44);
        // a random overlap: B starts somewhere in [s, s + na]
        let off = r.below(na + 1);
        let kind = if off == na { "disjoint" } else if off + nb <= na { "nested" } else { "partial" };
        pair(&mut o, p, s, na, s + off, nb, kind);
    }
    // ---- histories: a non-empty receiver updated from a MinHash with ~m .. 10m new hashes, further
    // add_hash calls, merges; the estimates must sit in the window of the TRUE union size
    for p in 4..=18u32 {
        let m = 1u64 << p;
        let (cap0, cap1) = if thorough { (4 * m, 16 * m) } else { (30_000, 60_000) };
        for &n0 in &[m / 2, 2 * m] {
            for &n1 in &[m, 10 * m] {
                for rel in 0..2 {
                    let (n0, n1) = (n0.min(cap0), n1.min(cap1));
                    let s = r.bits(40);
                    // the update is disjoint from the receiver's set, or shares half of the smaller one
                    let s1 = if rel == 0 { s + n0 + r.below(1000) } else { s + n0 - n0.min(n1) / 2 };
                    let api = if r.chance(1, 2) { "api" } else { "ffi" };
                    let num = if r.chance(1, 3) { n1 + r.below(3) } else { 0 };
                    let mut v = vec![format!("A {} {} {}", p, s, n0), format!("upd A {} {} {} {}", api, num, s1, n1)];
                    for op in ["hist A", "card A", "cardint A", "bound A"] {
                        v.push(op.into());
                    }
                    // B: the same union sketched by plain add_hash, plus something on top now and then
                    let lo = s.min(s1);
                    let hi = (s + n0).max(s1 + n1);
                    let extra = if r.chance(1, 2) { 0 } else { r.below(m.min(cap0)) };
                    v.push(format!("B {} {} {}", p, lo, hi - lo + extra));
                    for op in ["joint", "api", "consist", "jhist", "jbound"] {
                        v.push(op.into());
                    }
                    o.push(("upd-nonempty".into(), v));
                }
            }
        }
        // longer histories: update into empty, add more, update again, merge another sketch
        let reps = if thorough { 6 } else { 2 };
        for _ in 0..reps {
            let unit = m.min(if thorough { 4 * m } else { 12_000 });
            let s = r.bits(40);
            let mut v = vec![format!("A {} {} 0", p, s)];
            let mut at = s;
            for step in 0..r.range(3, 5) {
                let n = r.range(unit / 2, 2 * unit).max(1);
                // sometimes step back into what is already there
                let from = if r.chance(1, 3) { at.saturating_sub(r.below(n)) .max(s) } else { at + r.below(50) };
                match (step + r.below(2)) % 3 {
                    0 => v.push(format!("upd A {} {} {} {}", if r.chance(1, 2) { "api" } else { "ffi" }, if r.chance(1, 3) { n } else { 0 }, from, n)),
                    1 => v.push(format!("add A {} {}", from, n)),
                    _ => {
                        v.push(format!("B {} {} {}", p, from, n));
                        v.push("mrg A".into());
                    }
                }
                at = at.max(from + n);
                if r.chance(1, 2) {
                    v.push("bound A".into());
                    v.push("fresh A".into());
                }
            }
            for op in ["hist A", "card A", "bound A"] {
                v.push(op.into());
            }
            v.push(format!("B {} {} {}", p, s + r.below(unit), unit));
            v.push(format!("upd B api 0 {} {}", at, unit));
            for op in ["joint", "api", "consist", "jhist", "jbound", "bound B"] {
                v.push(op.into());
            }
            o.push(("history".into(), v));
        }
        // estimates of a sketch that went through save / load
        for route in ["file", "gz", "buf"] {
            let n = r.range(m, 4 * m).min(if thorough { 4 * m } else { 60_000 });
            let s = r.bits(40);
            let mut v = vec![format!("A {} {} {}", p, s, n), format!("reload A {}", route)];
            for op in ["hist A", "card A", "bound A"] {
                v.push(op.into());
            }
            v.push(format!("B {} {} {}", p, s + n / 2, n));
            v.push(format!("reload B {}", *r.pick(&["file", "gz", "buf"])));
            for op in ["joint", "api", "consist", "jbound"] {
                v.push(op.into());
            }
            o.push(("reload".into(), v));
        }
    }
    // ---- estimates BEFORE and AFTER every kind of mutation, on the same objects: each step asks A (and
    // the pair) first, mutates A through one entry point so that its true size grows by a factor of
    // about two (far outside the window of the old value for p >= 8), and asks again
    const KINDS: [&str; 13] =
        ["add", "mrg", "addmany", "upd api", "mrgffi", "addffi", "mrgbad", "upd ffi", "addseq api", "reload", "addseq ffi", "mrg B", "mrgbadffi"];
    let reps = if thorough { 8 } else { 4 };
    for p in 4..=18u32 {
        let m = 1u64 << p;
        let cap = if thorough { 4 * m } else { 16_000 };
        for rep in 0..reps {
            let s = r.bits(40);
            // A starts empty (and is asked while empty) or with some content
            let n0 = if (rep + p as u64) % 2 == 0 { 0 } else { r.range(m / 4, m).min(cap) };
            let mut v = vec![format!("A {} {} {}", p, s, n0), format!("B {} {} {}", p, s + r.below(n0 + 1), r.range(1, m).min(cap))];
            let mut at = s + n0;
            let mut have = n0;
            let nsteps = if thorough { r.range(5, 11) } else { 6 };
            let first = r.below(13);
            for step in 0..nsteps {
                // before
                v.push((if r.chance(1, 2) { "cardint A" } else { "cardffi A" }).into());
                if r.chance(1, 2) {
                    v.push((if r.chance(1, 2) { "api" } else { "apiffi" }).into());
                }
                let n = have.max((m / 4).max(8)).min(cap);
                let from = if r.chance(1, 4) { at.saturating_sub(r.below(n / 2 + 1)).max(s) } else { at + r.below(50) };
                let kind = KINDS[((first + step * 4 + rep) % 13) as usize];
                match kind {
                    "add" | "addmany" | "addffi" => v.push(format!("{} A {} {}", kind, from, n)),
                    "upd api" | "upd ffi" => v.push(format!("{} {} {} {}", kind.replace("upd", "upd A"), if r.chance(1, 3) { n + r.below(3) } else { 0 }, from, n)),
                    "mrg" | "mrgffi" => {
                        v.push(format!("B {} {} {}", p, from, n));
                        if r.chance(1, 2) {
                            v.push((if r.chance(1, 2) { "cardint B" } else { "cardffi B" }).into());
                        }
                        v.push(format!("{} A", kind));
                    }
                    "mrg B" => {
                        // the other object is the receiver, after having been asked
                        v.push("cardint B".into());
                        v.push((if r.chance(1, 2) { "mrg B" } else { "mrgffi B" }).into());
                        v.push("cardint B".into());
                        v.push("fresh B".into());
                        v.push("bound B".into());
                    }
                    "reload" => v.push(format!("reload A {}", *r.pick(&["file", "gz", "buf"]))),
                    "mrgbad" | "mrgbadffi" => {
                        // a sketch of another precision and / or another k: the merge is refused and A is
                        // what it was (asked at once); then the other way round, then a compatible B again
                        // for the overlap queries below
                        let (p2, k2) = other_shape(&mut r, p, 21);
                        let nb = r.range(1, 4 << p2).min(cap);
                        v.push(format!("B {} {} {} {}", p2, from, nb, k2));
                        if r.chance(1, 2) {
                            v.push((if r.chance(1, 2) { "cardint B" } else { "cardffi B" }).into());
                        }
                        v.push((if kind == "mrgbad" { "mrgx A" } else { "mrgxffi A" }).into());
                        v.push((if r.chance(1, 2) { "cardint A" } else { "cardffi A" }).into());
                        v.push("fresh A".into());
                        v.push("bound A".into());
                        v.push((if kind == "mrgbad" { "mrgxffi B" } else { "mrgx B" }).into());
                        v.push("bound B".into());
                        v.push("fresh B".into());
                        v.push(format!("B {} {} {}", p, from, n));
                    }
                    _ => {
                        let len = n.min(if thorough { 6000 } else { 1500 }) + 20;
                        let dna: String = (0..len).map(|_| *r.pick(b"ACGT") as char).collect();
                        v.push(format!("{} {}", kind.replace("addseq", "addseq A"), dna));
                    }
                }
                if !matches!(kind, "mrg B" | "reload" | "mrgbad" | "mrgbadffi") && !kind.starts_with("addseq") {
                    at = at.max(from + n);
                    have = at - s;
                }
                // after
                v.push((if r.chance(1, 2) { "cardint A" } else { "cardffi A" }).into());
                v.push("fresh A".into());
                v.push("bound A".into());
                if r.chance(1, 2) {
                    v.push("card A".into());
                }
                v.push((if r.chance(1, 2) { "api" } else { "apiffi" }).into());
                v.push("freshj".into());
                if r.chance(1, 2) {
                    v.push("consist".into());
                    v.push("jbound".into());
                }
            }
            o.push(("before-after".into(), v));
        }
    }
    // ---- small and structured hashes: 0, 1, 2^k - 1, 2^k, 2^k + 1 for every k, values below 2^(p-1) and
    // 2^p (upper q bits all zero: the rank saturates at q + 1), all-ones - alone and alongside random streams
    structured_cases(&mut o, &mut r, thorough);
    // ---- merges that have to be refused (other precision / other k), into empty and non-empty receivers
    mismatch_cases(&mut o, &mut r, thorough);
    for i in (1..o.len()).rev() {
        let j = r.below(i as u64 + 1) as usize;
        o.swap(i, j);
    }
    let mut out = Out::new();
    for (kind, ops) in &o {
        out.case(kind);
        for l in ops {
            out.op(l);
        }
    }
}

// ------------------------------------------------------------------------------------ exec

#[derive(Clone)]
struct Sk {
    h: HyperLogLog,
    p: usize,
    /// the true set: the union of these index ranges (start, n) of the splitmix64 stream ...
    ranges: Vec<(u64, u64)>,
    /// ... plus these hashes (k-mers of `addseq`; sorted, distinct; taken to be outside the stream)
    extra: Vec<u64>,
}

fn merge_sorted(a: &[u64], b: &[u64]) -> Vec<u64> {
    let mut v = a.to_vec();
    v.extend_from_slice(b);
    v.sort_unstable();
    v.dedup();
    v
}

/// size of a union of index ranges
fn union_size(ranges: &[(u64, u64)]) -> u64 {
    let mut v: Vec<(u64, u64)> = ranges.iter().filter(|r| r.1 > 0).map(|r| (r.0, r.0 + r.1)).collect();
    v.sort_unstable();
    let (mut total, mut end) = (0u64, 0u64);
    for (lo, hi) in v {
        let lo = lo.max(end);
        if hi > lo {
            total += hi - lo;
            end = hi;
        }
    }
    total
}

impl Sk {
    fn n(&self) -> u64 {
        union_size(&self.ranges) + self.extra.len() as u64
    }
}

fn nz(h: &HyperLogLog) -> usize {
    h.to_vec().iter().filter(|x| **x != 0).count()
}
#[derive(Default)]
struct St {
    a: Option<Sk>,
    b: Option<Sk>,
}

/// f64 as its 16-hex-digit bit pattern; NaN (0/0 of two empty sketches) has no canonical bits
fn bits(x: f64) -> String {
    if x.is_nan() {
        "nan".into()
    } else {
        format!("{:016x}", x.to_bits())
    }
}

fn regs(h: &HyperLogLog) -> Vec<u8> {
    h.to_vec().iter().map(|x| *x as u8).collect()
}

/// the estimator exactly as `cardinality` dispatches it, but returning the f64
fn mle_f64(h: &HyperLogLog, p: usize) -> f64 {
    let q = 64 - p;
    let r = regs(h);
    if p < 8 {
        estimators::mle(&estimators::counts::<u8>(&r, q), p, q, 0.01)
    } else if p < 16 {
        estimators::mle(&estimators::counts::<u16>(&r, q), p, q, 0.05)
    } else {
        estimators::mle(&estimators::counts::<u32>(&r, q), p, q, 0.1)
    }
}

fn mle_001(r: &[u8], p: usize) -> f64 {
    let q = 64 - p;
    if p < 8 {
        estimators::mle(&estimators::counts::<u8>(r, q), p, q, 0.01)
    } else if p < 16 {
        estimators::mle(&estimators::counts::<u16>(r, q), p, q, 0.01)
    } else {
        estimators::mle(&estimators::counts::<u32>(r, q), p, q, 0.01)
    }
}

fn hist(h: &HyperLogLog, p: usize) -> String {
    let q = 64 - p;
    let r = regs(h);
    if p < 8 {
        show_nats(estimators::counts::<u8>(&r, q).iter().map(|x| *x as u64))
    } else if p < 16 {
        show_nats(estimators::counts::<u16>(&r, q).iter().map(|x| *x as u64))
    } else {
        show_nats(estimators::counts::<u32>(&r, q).iter().map(|x| *x as u64))
    }
}

/// |est - truth| <= mult * 1.04/sqrt(m) * scale + slack, in exact integer arithmetic:
/// (d - slack)^2 * m * 10^4 <= (mult * 104 * scale)^2
fn within(est: u64, truth: u64, scale: u64, p: usize, mult: u64, slack: u64) -> bool {
    let d = est.abs_diff(truth);
    if d <= slack {
        return true;
    }
    let d = (d - slack) as u128;
    let rhs = (mult * 104) as u128 * scale as u128;
    // d^2 * m * 10^4 <= rhs^2 ; d < 2^64 so compare through a quotient to stay inside u128
    let lhs_m = (1u128 << p) * 10_000;
    // d^2 * lhs_m <= rhs^2  <=>  d * d <= rhs^2 / lhs_m (floor) when d*d fits
    match d.checked_mul(d).and_then(|x| x.checked_mul(lhs_m)) {
        Some(l) => match rhs.checked_mul(rhs) {
            Some(rr) => l <= rr,
            None => true,
        },
        None => false,
    }
}

/// a sketch with the same registers and no history: loaded from the saved bytes
fn reloaded(h: &HyperLogLog) -> HyperLogLog {
    let mut buf = vec![];
    h.save_to_writer(&mut buf).unwrap();
    HyperLogLog::from_reader(&buf[..]).unwrap()
}

/// window multipliers (in units of 1.04/sqrt(m)).  The nominal sigma describes the estimator for
/// large m; for 16 / 32 registers its error distribution is heavy-tailed (measured on the unchanged
/// tree over 50 000 random sample sets per precision: p = 4 worst 10.3 sigma, 17 beyond 6; p = 5 worst
/// 8.1, 4 beyond 6; p = 6, 7 worst 5.9; p >= 8 worst 4.8; union of random pairs: p = 4 8 of 40 000
/// beyond 10 sigma, p = 5 2, none from p = 6 on), so the small precisions get wider windows
fn card_mult(p: usize) -> u64 {
    match p {
        4 => 14,
        5 => 11,
        6 | 7 => 8,
        _ => 6,
    }
}
fn joint_mult(p: usize) -> u64 {
    match p {
        4 => 16,
        5 => 13,
        _ => 10,
    }
}

fn overlap(a: &Sk, b: &Sk) -> (u64, u64) {
    // true |A ∩ B| and |A ∪ B| of the two unions of index ranges (splitmix64 is injective)
    let mut all = a.ranges.clone();
    all.extend_from_slice(&b.ranges);
    let union = union_size(&all) + merge_sorted(&a.extra, &b.extra).len() as u64;
    (a.n() + b.n() - union, union)
}

fn step(st: &mut St, ws: &[&str]) -> String {
    // a shared borrow of the sketch object itself: estimates are never asked on a copy
    fn which<'a>(st: &'a St, w: &str) -> Option<&'a Sk> {
        if w == "A" {
            st.a.as_ref()
        } else {
            st.b.as_ref()
        }
    }
    match ws[0] {
        "case" => "ok".into(),
        "A" | "B" => {
            let p: usize = ws[1].parse().unwrap();
            let start: u64 = ws[2].parse().unwrap();
            let n: u64 = ws[3].parse().unwrap();
            let k: usize = ws.get(4).map(|w| w.parse().unwrap()).unwrap_or(21);
            let mut h = HyperLogLog::new(p, k).unwrap();
            for i in 0..n {
                h.add_hash(splitmix64(start + i));
            }
            let sk = Some(Sk { h, p, ranges: vec![(start, n)], extra: vec![] });
            let nz = nz(&sk.as_ref().unwrap().h);
            if ws[0] == "A" {
                st.a = sk
            } else {
                st.b = sk
            }
            format!("nz={}", nz)
        }
        "add" | "upd" | "reload" | "addmany" | "addffi" | "addseq" | "addh" => {
            let sk = match if ws[1] == "A" { st.a.as_mut() } else { st.b.as_mut() } {
                Some(s) => s,
                None => return "none".into(),
            };
            match ws[0] {
                "add" => {
                    let (start, n): (u64, u64) = (ws[2].parse().unwrap(), ws[3].parse().unwrap());
                    for i in 0..n {
                        sk.h.add_hash(splitmix64(start + i));
                    }
                    sk.ranges.push((start, n));
                }
                "addmany" => {
                    let (start, n): (u64, u64) = (ws[2].parse().unwrap(), ws[3].parse().unwrap());
                    let hs: Vec<u64> = (0..n).map(|i| splitmix64(start + i)).collect();
                    sk.h.add_many(&hs).unwrap();
                    sk.ranges.push((start, n));
                }
                "addffi" => {
                    let (start, n): (u64, u64) = (ws[2].parse().unwrap(), ws[3].parse().unwrap());
                    let ptr = &mut sk.h as *mut HyperLogLog as *mut SourmashHyperLogLog;
                    for i in 0..n {
                        unsafe { hll_add_hash(ptr, splitmix64(start + i)) };
                    }
                    sk.ranges.push((start, n));
                }
                "addh" => {
                    let hs = parse_nats(ws[3]);
                    match ws[2] {
                        "api" => {
                            for h in &hs {
                                sk.h.add_hash(*h);
                            }
                        }
                        "many" => sk.h.add_many(&hs).unwrap(),
                        "ffi" => {
                            let ptr = &mut sk.h as *mut HyperLogLog as *mut SourmashHyperLogLog;
                            for h in &hs {
                                unsafe { hll_add_hash(ptr, *h) };
                            }
                        }
                        _ => {
                            let num = if ws[2] == "mhn" { hs.len() as u32 + 2 } else { 0 };
                            let mut mh = KmerMinHash::new(if num == 0 { 1 } else { 0 }, 21, HashFunctions::Murmur64Dna, 42, false, num);
                            let mut sorted = hs.clone();
                            sorted.sort_unstable();
                            sorted.dedup();
                            for h in &hs {
                                mh.add_hash(*h);
                            }
                            // the MinHash is only the vehicle: it must hold exactly these hashes
                            assert_eq!(mh.mins(), sorted);
                            mh.update(&mut sk.h).unwrap();
                        }
                    }
                    sk.extra = merge_sorted(&sk.extra, &hs);
                }
                "addseq" => {
                    let seq = ws[3].as_bytes();
                    // the true set of the sequence, counted by a different structure
                    let mut mh = KmerMinHash::new(1, 21, HashFunctions::Murmur64Dna, 42, false, 0);
                    mh.add_sequence(seq, false).unwrap();
                    if ws[2] == "ffi" {
                        unsafe {
                            hll_add_sequence(&mut sk.h as *mut HyperLogLog as *mut SourmashHyperLogLog, seq.as_ptr() as *const c_char, seq.len(), false)
                        };
                    } else {
                        sk.h.add_sequence(seq, false).unwrap();
                    }
                    sk.extra = merge_sorted(&sk.extra, &mh.mins());
                }
                "upd" => {
                    let (num, start, n): (u32, u64, u64) = (ws[3].parse().unwrap(), ws[4].parse().unwrap(), ws[5].parse().unwrap());
                    let mut hs: Vec<u64> = (0..n).map(|i| splitmix64(start + i)).collect();
                    hs.sort_unstable();
                    let mut mh = KmerMinHash::new(if num == 0 { 1 } else { 0 }, 21, HashFunctions::Murmur64Dna, 42, false, num);
                    for h in &hs {
                        mh.add_hash(*h);
                    }
                    assert_eq!(mh.mins().len() as u64, n);
                    if ws[2] == "ffi" {
                        unsafe { hll_update_mh(&mut sk.h as *mut HyperLogLog as *mut SourmashHyperLogLog, SourmashKmerMinHash::from_ref(&mh)) };
                    } else {
                        mh.update(&mut sk.h).unwrap();
                    }
                    sk.ranges.push((start, n));
                }
                _ => {
                    let dir = tempfile::Builder::new().prefix("verif-c18-").tempdir().unwrap();
                    let path = dir.path().join("x.hll");
                    let loaded = match ws[2] {
                        "file" => {
                            sk.h.save(&path).unwrap();
                            HyperLogLog::from_path(&path)
                        }
                        "gz" => unsafe {
                            let mut size = 0usize;
                            let ptr = hll_to_buffer(SourmashHyperLogLog::from_ref(&sk.h), &mut size);
                            assert!(!ptr.is_null());
                            let buf = Vec::from_raw_parts(ptr as *mut u8, size, size);
                            HyperLogLog::from_reader(&buf[..])
                        },
                        _ => {
                            let mut buf = vec![];
                            sk.h.save_to_writer(&mut buf).unwrap();
                            HyperLogLog::from_reader(std::io::BufReader::new(&buf[..]))
                        }
                    };
                    match loaded {
                        Ok(h) => sk.h = h,
                        Err(e) => return format!("err {:?}", e).split(['(', ' ', '{']).take(2).collect::<Vec<_>>().join(" "),
                    }
                }
            }
            format!("nz={}", nz(&sk.h))
        }
        "mrg" | "mrgffi" => {
            let (dst, src) = if ws[1] == "A" { (st.a.as_mut(), st.b.as_ref()) } else { (st.b.as_mut(), st.a.as_ref()) };
            match (dst, src) {
                (Some(d), Some(s)) => {
                    if ws[0] == "mrgffi" {
                        unsafe { hll_merge(&mut d.h as *mut HyperLogLog as *mut SourmashHyperLogLog, SourmashHyperLogLog::from_ref(&s.h)) };
                    } else {
                        d.h.merge(&s.h).unwrap();
                    }
                    d.ranges.extend_from_slice(&s.ranges);
                    d.extra = merge_sorted(&d.extra, &s.extra);
                    format!("nz={}", nz(&d.h))
                }
                _ => "none".into(),
            }
        }
        "mrgx" | "mrgxffi" => {
            let (dst, src) = if ws[1] == "A" { (st.a.as_mut(), st.b.as_ref()) } else { (st.b.as_mut(), st.a.as_ref()) };
            match (dst, src) {
                (Some(d), Some(s)) => {
                    let res = if ws[0] == "mrgxffi" {
                        LAST_ERROR.with(|e| e.borrow_mut().take());
                        unsafe { hll_merge(&mut d.h as *mut HyperLogLog as *mut SourmashHyperLogLog, SourmashHyperLogLog::from_ref(&s.h)) };
                        match LAST_ERROR.with(|e| e.borrow_mut().take()) {
                            Some(e) => Err(e),
                            None => Ok(()),
                        }
                    } else {
                        d.h.merge(&s.h)
                    };
                    match res {
                        Ok(()) => {
                            // accepted: the receiver now holds both sets
                            d.ranges.extend_from_slice(&s.ranges);
                            d.extra = merge_sorted(&d.extra, &s.extra);
                            format!("ok nz={}", nz(&d.h))
                        }
                        Err(e) => {
                            let s = format!("{:?}", e);
                            format!("err {}", s.chars().take_while(|c| c.is_alphanumeric()).collect::<String>())
                        }
                    }
                }
                _ => "none".into(),
            }
        }
        "cardffi" => match which(st, ws[1]) {
            Some(s) => unsafe { hll_cardinality(SourmashHyperLogLog::from_ref(&s.h)) }.to_string(),
            None => "none".into(),
        },
        "fresh" => match which(st, ws[1]) {
            Some(s) => {
                let f = reloaded(&s.h);
                let (o1, o2) = (s.h.cardinality(), unsafe { hll_cardinality(SourmashHyperLogLog::from_ref(&s.h)) });
                let (f1, f2) = (f.cardinality(), unsafe { hll_cardinality(SourmashHyperLogLog::from_ref(&f)) });
                if (o1, o2) == (f1, f2) {
                    "same".into()
                } else {
                    format!("differ {},{} {},{}", o1, o2, f1, f2)
                }
            }
            None => "none".into(),
        },
        "apiffi" | "freshj" => {
            let (a, b) = match (st.a.as_ref(), st.b.as_ref()) {
                (Some(a), Some(b)) => (a, b),
                _ => return "none".into(),
            };
            if ws[0] == "apiffi" {
                let (pa, pb) = unsafe { (SourmashHyperLogLog::from_ref(&a.h), SourmashHyperLogLog::from_ref(&b.h)) };
                let (i, s, c) = unsafe { (hll_intersection_size(pa, pb), hll_similarity(pa, pb), hll_containment(pa, pb)) };
                format!("i={} s={} c={}", i, bits(s), bits(c))
            } else {
                let (fa, fb) = (reloaded(&a.h), reloaded(&b.h));
                let all = |x: &HyperLogLog, y: &HyperLogLog| -> Vec<String> {
                    let (px, py) = unsafe { (SourmashHyperLogLog::from_ref(x), SourmashHyperLogLog::from_ref(y)) };
                    vec![
                        x.union(y).to_string(),
                        x.intersection(y).to_string(),
                        bits(x.similarity(y)),
                        bits(x.containment(y)),
                        y.union(x).to_string(),
                        bits(y.containment(x)),
                        unsafe { hll_intersection_size(px, py) }.to_string(),
                        bits(unsafe { hll_similarity(px, py) }),
                        bits(unsafe { hll_containment(px, py) }),
                    ]
                };
                let (o, f) = (all(&a.h, &b.h), all(&fa, &fb));
                if o == f {
                    "same".into()
                } else {
                    let names = ["union", "intersection", "similarity", "containment", "union-rev", "containment-rev", "ffi-intersection", "ffi-similarity", "ffi-containment"];
                    let bad: Vec<&str> = (0..o.len()).filter(|i| o[*i] != f[*i]).map(|i| names[i]).collect();
                    format!("differ {}", bad.join(","))
                }
            }
        }
        "hist" => match which(st, ws[1]) {
            Some(s) => hist(&s.h, s.p),
            None => "none".into(),
        },
        "card" => match which(st, ws[1]) {
            Some(s) => format!("card={} bits={}", s.h.cardinality(), bits(mle_f64(&s.h, s.p))),
            None => "none".into(),
        },
        "cardint" => match which(st, ws[1]) {
            Some(s) => s.h.cardinality().to_string(),
            None => "none".into(),
        },
        "bound" => match which(st, ws[1]) {
            Some(s) => {
                if within(s.h.cardinality() as u64, s.n(), s.n(), s.p, card_mult(s.p), 1) {
                    "within".into()
                } else {
                    "outside".into()
                }
            }
            None => "none".into(),
        },
        "joint" | "api" | "consist" | "jhist" | "jbound" => {
            let (a, b) = match (st.a.as_ref(), st.b.as_ref()) {
                (Some(a), Some(b)) => (a, b),
                _ => return "none".into(),
            };
            let (p, q) = (a.p, 64 - a.p);
            let (ra, rb) = (regs(&a.h), regs(&b.h));
            let (oa, ob, it) = estimators::joint_mle(&ra, &rb, p, q);
            match ws[0] {
                "joint" => format!("a={} b={} i={}", oa, ob, it),
                "api" => format!(
                    "u={} i={} s={} c={}",
                    a.h.union(&b.h),
                    a.h.intersection(&b.h),
                    bits(a.h.similarity(&b.h)),
                    bits(a.h.containment(&b.h))
                ),
                "consist" => {
                    let mut bad = vec![];
                    if a.h.union(&b.h) != oa + ob + it {
                        bad.push("union")
                    }
                    if a.h.intersection(&b.h) != it {
                        bad.push("intersection")
                    }
                    if a.h.similarity(&b.h).to_bits() != (it as f64 / (oa + ob + it) as f64).to_bits() {
                        bad.push("similarity")
                    }
                    if a.h.containment(&b.h).to_bits() != (it as f64 / (oa + it) as f64).to_bits() {
                        bad.push("containment")
                    }
                    if bad.is_empty() {
                        "consistent".into()
                    } else {
                        format!("inconsistent {}", bad.join(","))
                    }
                }
                "jhist" => {
                    let mut m = a.h.clone();
                    m.merge(&b.h).unwrap();
                    let cabx = mle_001(&regs(&m), p);
                    let (cax, cbx) = (mle_001(&ra, p), mle_001(&rb, p));
                    if (cabx - cbx) as usize == oa && (cabx - cax) as usize == ob {
                        "same".into()
                    } else {
                        "differ".into()
                    }
                }
                _ => {
                    let (ti, tu) = overlap(a, b);
                    let mut bad = vec![];
                    let u = (oa + ob + it) as u64;
                    // union() is onlyA + onlyB + max(0, inter): three differences of five estimates,
                    // with a negative intersection clipped to 0 (which biases the union of disjoint
                    // sets upwards).  Window: 10 sigma of the union size, + 1 (worst seen on the
                    // unchanged tree over 8 seeds / both tiers: 7.4 sigma at p = 4, 5.1 at p = 18).
                    if !within(u, tu, tu, p, joint_mult(p), 1) {
                        bad.push("union")
                    }
                    // the intersection is a difference of estimates of size ~ |A ∪ B|: its error
                    // scales with the union, not with the intersection itself
                    if !within(it as u64, ti, tu, p, joint_mult(p), 1) {
                        bad.push("intersection")
                    }
                    if bad.is_empty() {
                        "within".into()
                    } else {
                        format!("outside {}", bad.join(","))
                    }
                }
            }
        }
        _ => "bad-op".into(),
    }
}

fn main() {
    let a = args();
    match a.mode.as_str() {
        "gen" => gen(&a),
        "exec" => exec_loop(St::default, step),
        _ => panic!("mode"),
    }
}
