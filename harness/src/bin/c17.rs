//! C17: HyperLogLog sketches merge like set union and persist exactly.
//!
//! Eight sketch slots (0..7) per case.  Request lines
//!   case <n> <kind>
//!   new <slot> <p> <k>            HyperLogLog::new(p, k)                -> ok | err <Variant>
//!   add <slot> <h,h,...>          add_hash for each hash, in this order -> nz=<number of non-zero registers afterwards>
//!   show <slot>                   p=.. q=.. k=.. n=<#registers> regs=<run-length registers>
//!   eq <a> <b>                    PartialEq                             -> true | false
//!   merge <dst> <src>             dst.merge(&src)                       -> ok nz=<non-zero registers of dst> | err <Variant>
//!   refused <dst> <src>           merge again, observing the receiver   -> merged | refused unchanged | refused changed
//!   save <slot>                   save_to_writer                        -> hdr=<7 bytes hex> len=<n> body=<run-length>
//!   rt <dst> <src> plain|gz|file|ffi   save -> load into dst            -> <show of dst> same=<dst == src>
//!   loadraw <dst> <hex>           HyperLogLog::from_reader(bytes)       -> ok | err <Variant> | PANIC
//!
//! every way content enters a sketch (histories on empty and non-empty receivers)
//!   fill <slot> rnd|geo|uni <seed> <n> <dens>   add_hash(gen_hash(mode, p, seed, i)) for the i < n that pass the density filter -> nz=..
//!   addmany <slot> <h,..>         add_many                              -> nz=..
//!   addffi <slot> <h,..>          hll_add_hash (C API)                  -> nz=..
//!   addword <slot> <hex>          add_word(bytes)                       -> nz=..
//!   addseq <slot> api|ffi <force> <dna>   add_sequence / hll_add_sequence -> ok nz=.. | err <Variant> nz=..
//!   upd <slot> api|ffi vec|tree <num> <scaled> <track> <h,..>
//!                                 a fresh KmerMinHash (or KmerMinHashBTree converted into one) receives the
//!                                 hashes in this order, then `mh.update(&mut hll)` / hll_update_mh -> mins=<#mins> nz=..
//!   ashll <dst> <num> <scaled> <h,..>   KmerMinHash::as_hll()           -> <digest>
//!   mergeffi <dst> <src>          hll_merge (C API)                     -> ok nz=.. | err <Variant>
//!   clone <dst> <src>             Clone                                 -> <digest of dst> same=<dst == src>
//!
//! estimates, asked on the object itself (never on a copy) before and after mutations
//!   card <slot> api|ffi           cardinality() / hll_cardinality       -> <n>
//!   est <a> <b> api|ffi           a.union(b) a.intersection(b) a.similarity(b) a.containment(b), or
//!                                 hll_intersection_size / hll_similarity / hll_containment
//!                                                                       -> [u=..] i=.. s=<f64 bits> c=<f64 bits>
//!   dg <slot>                     p=.. q=.. k=.. n=.. nz=.. sum=.. xor=.. fnv=.. first=<8> last=<8>
//!
//! persistence through every route (`rtd <dst> <src> <route>` -> <digest of dst> same=<dst == src>)
//!   vec      save_to_writer into Vec, from_reader(&[u8])
//!   bufw     save_to_writer into BufWriter<File>, from_path
//!   path     save(path), from_path                 ffifile  hll_save, hll_from_path (C API, niffler::from_path)
//!   gz1|gz6|gz9          save_to_writer into niffler's gzip writer over a Vec at that level, from_reader
//!   gzfile1|gzfile6|gzfile9  the same over a File, from_path
//!   ffi      hll_to_buffer, hll_from_buffer (C API)
//!   r1|r7    saved bytes through a reader that hands out 1 / at most 7 bytes per read() call
//!   gzr7     gzip bytes through the <= 7 bytes reader       br  BufReader with a 16-byte buffer
//!   w5       save_to_writer into a writer that accepts at most 5 bytes per write() call
//!   json     serde_json::to_vec, serde_json::from_slice (the Serialize / Deserialize impls)
//!   gzw5     niffler gzip writer (level 6) on top of that writer
use sourmash::encodings::HashFunctions;
use sourmash::ffi::hyperloglog::{
    hll_add_hash, hll_add_sequence, hll_cardinality, hll_containment, hll_from_buffer, hll_from_path, hll_intersection_size,
    hll_merge, hll_save, hll_similarity, hll_to_buffer, hll_update_mh, SourmashHyperLogLog,
};
use sourmash::ffi::minhash::SourmashKmerMinHash;
use sourmash::ffi::utils::{ForeignObject, LAST_ERROR};
use sourmash::prelude::*;
use sourmash::signature::SigsTrait;
use sourmash::sketch::hyperloglog::HyperLogLog;
use sourmash::sketch::minhash::{max_hash_for_scaled, KmerMinHash, KmerMinHashBTree};
use std::io::{Read, Write};
use std::os::raw::c_char;
use verif_harness::*;

pub fn splitmix64(i: u64) -> u64 {
    let mut z = i.wrapping_add(0x9E37_79B9_7F4A_7C15);
    z = (z ^ (z >> 30)).wrapping_mul(0xBF58_476D_1CE4_E5B9);
    z = (z ^ (z >> 27)).wrapping_mul(0x94D0_49BB_1331_11EB);
    z ^ (z >> 31)
}

/// the i-th hash of a `fill` (implemented identically in lean/Driver/C17.lean)
///   rnd: an arbitrary 64-bit value
///   geo: bucket i mod 2^p, upper bits random (ranks geometric, as real hashes give)
///   uni: bucket i mod 2^p, rank uniform over 1..=q+1 (a register array gzip cannot squeeze much)
fn gen_hash(mode: &str, p: u32, seed: u64, i: u64) -> u64 {
    let x = splitmix64(seed.wrapping_add(i));
    let m = 1u64 << p;
    let b = i & (m - 1);
    match mode {
        "rnd" => x,
        "geo" => (x & !(m - 1)) | b,
        _ => {
            let q = 64 - p as u64;
            let r = 1 + (x >> 8) % (q + 1);
            if r == q + 1 {
                b
            } else {
                let top = 1u64 << (64 - r);
                let low = ((x << 17) | (x >> 47)) & (top - 1) & !(m - 1);
                top | low | b
            }
        }
    }
}

fn gen_keep(seed: u64, i: u64, dens: u64) -> bool {
    dens >= 256 || (splitmix64(seed.wrapping_add(i)) & 255) < dens
}

// ------------------------------------------------------------------------------------ generator

/// a hash of one of the boundary-heavy kinds
fn some_hash(r: &mut Rng, p: u32) -> u64 {
    match r.below(14) {
        0 => 0,
        1 => u64::MAX,
        // upper 64-p bits all zero
        2 => r.below(1 << p),
        3 => (1u64 << p) - 1,
        // exactly one bit
        4 => 1u64 << r.below(64),
        5 => (1u64 << r.range(1, 63)) - 1,
        // the lowest of the upper bits, the highest bit
        6 => (1u64 << p) | r.below(1 << p),
        7 => (1u64 << 63) | r.below(1 << p),
        // random magnitude
        8 | 9 => r.bits(64),
        // one bucket, varying ranks
        10 => (r.bits(64) << p) | 5,
        11 => (r.bits(64 - p) << p) | ((1 << p) - 1),
        _ => r.next(),
    }
}

fn some_k(r: &mut Rng) -> u64 {
    // the file header stores k in one byte: k >= 256 is the recorded finding (corpus/C17/ksize256.ops)
    match r.below(8) {
        0 => 0,
        1 => 255,
        2 => 21,
        3 => 31,
        4 => 51,
        _ => r.range(1, 254),
    }
}

fn some_p(r: &mut Rng) -> u32 {
    // every precision, small ones more often (their register dumps are short)
    if r.chance(2, 3) {
        r.range(4, 9) as u32
    } else {
        r.range(4, 18) as u32
    }
}

fn multiset(r: &mut Rng, p: u32, thorough: bool) -> Vec<u64> {
    let n = match r.below(20) {
        0 => 0,
        1 => 1,
        2..=12 => r.range(2, 24),
        13..=17 => r.range(25, 120),
        18 => r.range(121, 600),
        _ => {
            if thorough {
                r.range(600, 20000)
            } else {
                r.range(600, 3000)
            }
        }
    };
    let mut v: Vec<u64> = Vec::with_capacity(n as usize);
    for _ in 0..n {
        if !v.is_empty() && r.chance(1, 8) {
            let d = *r.pick(&v);
            v.push(d); // duplicate
        } else {
            v.push(some_hash(r, p));
        }
    }
    v
}

fn shuffle(r: &mut Rng, v: &mut [u64]) {
    for i in (1..v.len()).rev() {
        let j = r.below(i as u64 + 1) as usize;
        v.swap(i, j);
    }
}

/// `add` lines for the hashes in the given order, split at random points
fn emit_adds(o: &mut Out, r: &mut Rng, slot: u32, hs: &[u64]) {
    let mut i = 0;
    while i < hs.len() {
        let n = if r.chance(1, 2) { hs.len() - i } else { r.range(1, (hs.len() - i) as u64) as usize };
        o.op(&format!("add {} {}", slot, show_nats(hs[i..i + n].iter().copied())));
        i += n;
    }
}

const ROUTES: [&str; 18] = [
    "vec", "bufw", "path", "ffifile", "gz1", "gz6", "gz9", "gzfile1", "gzfile6", "gzfile9", "ffi", "r1", "r7", "gzr7", "br", "w5", "gzw5", "json",
];

fn api(r: &mut Rng) -> &'static str {
    if r.chance(1, 2) {
        "api"
    } else {
        "ffi"
    }
}

/// (num, scaled) of a MinHash: a num sketch or a scaled one, never both
fn mh_params(r: &mut Rng) -> (u64, u64) {
    if r.chance(1, 2) {
        (*r.pick(&[1u64, 2, 5, 20, 100, 500]), 0)
    } else {
        (0, *r.pick(&[1u64, 1, 2, 3, 10, 1000, 1 << 20, 1 << 40, u64::MAX]))
    }
}

fn mh_hashes(r: &mut Rng, p: u32, scaled: u64) -> Vec<u64> {
    let mx = max_hash_for_scaled(scaled);
    let n = match r.below(6) {
        0 => 0,
        1 => 1,
        2..=4 => r.range(2, 40),
        _ => r.range(40, 300),
    };
    let mut v: Vec<u64> = vec![];
    for _ in 0..n {
        if !v.is_empty() && r.chance(1, 8) {
            let d = *r.pick(&v);
            v.push(d);
        } else if mx != 0 && r.chance(3, 4) {
            v.push(match r.below(8) {
                0 => mx,
                1 => mx.wrapping_add(1),
                2 => mx - 1,
                _ => r.below(mx),
            });
        } else {
            v.push(some_hash(r, p));
        }
    }
    v
}

/// what the MinHash should hold: the distinct hashes, at most max_hash, the `num` smallest
fn mins_of(num: u64, scaled: u64, hs: &[u64]) -> Vec<u64> {
    let mut v = hs.to_vec();
    v.sort_unstable();
    v.dedup();
    let mx = max_hash_for_scaled(scaled);
    if num == 0 && mx == 0 {
        return vec![];
    }
    if mx != 0 {
        v.retain(|h| *h <= mx);
    }
    if num != 0 {
        v.truncate(num as usize);
    }
    v
}

fn some_dna(r: &mut Rng, k: u64) -> String {
    let n = match r.below(6) {
        0 => r.below(k + 1),
        1 => k,
        _ => r.range(k, k + 60),
    };
    let bad = r.chance(1, 4);
    let lower = r.chance(1, 4);
    let s: String = (0..n)
        .map(|_| {
            let c = if bad && r.chance(1, 12) { *r.pick(&[b'N', b'X', b'.', b'U']) } else { *r.pick(b"ACGT") };
            (if lower && r.chance(1, 2) { c.to_ascii_lowercase() } else { c }) as char
        })
        .collect();
    if s.is_empty() {
        "-".into()
    } else {
        s
    }
}

fn gen(a: &Args) {
    let mut r = Rng::new(a.seed);
    let mut o = Out::new();
    let thorough = a.tier == "thorough";
    let scale = if thorough { 12 } else { 1 };

    // every precision at least once with a dense dump, and the bounds of `new`
    o.case("new-bounds");
    for p in [0u64, 1, 2, 3, 4, 5, 17, 18, 19, 20, 32, 63, 64, 65, 255, 256, u32::MAX as u64, u64::MAX] {
        o.op(&format!("new 0 {} 21", p));
    }
    for p in 4..=18u32 {
        o.case("every-p");
        let k = some_k(&mut r);
        let hs: Vec<u64> = (0..if p <= 12 { 4u64 << p } else { 3000 }).map(|_| r.next()).collect();
        o.op(&format!("new 0 {} {}", p, k));
        emit_adds(&mut o, &mut r, 0, &hs);
        o.op(&format!("add 0 0,{},{}", (1u64 << p) - 1, u64::MAX));
        o.op("show 0");
        o.op("save 0");
        o.op("rt 1 0 plain");
        o.op("rt 2 0 gz");
        o.op("eq 1 2");
    }

    // A: insertion order and re-insertion
    for _ in 0..2500 * scale {
        o.case("order");
        let p = some_p(&mut r);
        let k = some_k(&mut r);
        let hs = multiset(&mut r, p, thorough);
        o.op(&format!("new 0 {} {}", p, k));
        emit_adds(&mut o, &mut r, 0, &hs);
        o.op("show 0");
        let orders = r.range(1, 3);
        for s in 1..=orders as u32 {
            let mut hs2 = hs.clone();
            match r.below(4) {
                0 => hs2.reverse(),
                1 => hs2.sort_unstable(),
                _ => shuffle(&mut r, &mut hs2),
            }
            // re-insert some of what is already there
            if !hs2.is_empty() && r.chance(1, 2) {
                for _ in 0..r.range(1, 5) {
                    let d = *r.pick(&hs2);
                    let at = r.below(hs2.len() as u64 + 1) as usize;
                    hs2.insert(at, d);
                }
            }
            o.op(&format!("new {} {} {}", s, p, k));
            emit_adds(&mut o, &mut r, s, &hs2);
            o.op(&format!("show {}", s));
            o.op(&format!("eq 0 {}", s));
        }
    }

    // B: merge algebra and the union homomorphism
    for _ in 0..1800 * scale {
        o.case("merge");
        let p = some_p(&mut r);
        let k = some_k(&mut r);
        let sets: Vec<Vec<u64>> = (0..3).map(|_| multiset(&mut r, p, thorough)).collect();
        for (s, hs) in sets.iter().enumerate() {
            o.op(&format!("new {} {} {}", s, p, k));
            emit_adds(&mut o, &mut r, s as u32, hs);
        }
        // 3 = (A ∪ B) ∪ C
        o.op(&format!("new 3 {} {}", p, k));
        let ask = r.chance(1, 2);
        if ask {
            o.op(&format!("card 3 {}", api(&mut r)));
        }
        o.op("merge 3 0");
        if ask {
            o.op(&format!("card 3 {}", api(&mut r)));
            o.op(&format!("est 3 1 {}", api(&mut r)));
        }
        o.op("merge 3 1");
        if ask {
            o.op(&format!("card 3 {}", api(&mut r)));
            o.op(&format!("est 3 1 {}", api(&mut r)));
        }
        o.op("merge 3 2");
        o.op("show 3");
        if ask {
            o.op(&format!("card 3 {}", api(&mut r)));
        }
        // 4 = A ∪ (B ∪ C), 5 = B ∪ C
        o.op(&format!("new 5 {} {}", p, k));
        o.op("merge 5 2");
        o.op("merge 5 1");
        o.op(&format!("new 4 {} {}", p, k));
        o.op("merge 4 5");
        o.op("merge 4 0");
        o.op("show 4");
        o.op("eq 3 4");
        // 6 = sketch of the union inserted directly, in some order
        let mut all: Vec<u64> = sets.concat();
        shuffle(&mut r, &mut all);
        o.op(&format!("new 6 {} {}", p, k));
        emit_adds(&mut o, &mut r, 6, &all);
        o.op("show 6");
        o.op("eq 3 6");
        // idempotence, merging into a non-empty receiver, commutativity on the operands themselves
        o.op("merge 3 3");
        o.op("merge 3 0");
        o.op("show 3");
        o.op("eq 3 6");
        match r.below(3) {
            0 => {
                // 0 := A ∪ B, 1 := B ∪ A
                o.op(&format!("new 7 {} {}", p, k));
                o.op("merge 7 1");
                o.op("merge 7 0");
                o.op("merge 0 1");
                o.op("eq 0 7");
                o.op("show 0");
            }
            1 => {
                // keep inserting after a merge
                let more = multiset(&mut r, p, false);
                emit_adds(&mut o, &mut r, 3, &more);
                o.op("show 3");
            }
            _ => {}
        }
    }

    // C: incompatible sketches refuse to merge and stay as they were
    for _ in 0..1000 * scale {
        o.case("refuse");
        let (p0, k0) = (some_p(&mut r), some_k(&mut r));
        let (p1, k1) = match r.below(4) {
            0 => (p0, if k0 == 21 { 31 } else { 21 }),
            1 => (if p0 == 18 { 17 } else { p0 + 1 }, k0),
            2 => (some_p(&mut r), some_k(&mut r)),
            _ => (if p0 == 4 { 5 } else { p0 - 1 }, k0 + 1),
        };
        let a = multiset(&mut r, p0, false);
        let b = multiset(&mut r, p1, false);
        o.op(&format!("new 0 {} {}", p0, k0));
        emit_adds(&mut o, &mut r, 0, &a);
        o.op(&format!("new 1 {} {}", p1, k1));
        emit_adds(&mut o, &mut r, 1, &b);
        o.op("merge 0 1");
        o.op("refused 0 1");
        o.op("show 0");
        o.op("merge 1 0");
        o.op("refused 1 0");
        o.op("show 1");
        if r.chance(1, 2) {
            // still usable afterwards
            let more = multiset(&mut r, p0, false);
            emit_adds(&mut o, &mut r, 0, &more);
            o.op("show 0");
        }
    }

    // D: persistence (plain bytes, gzip through niffler, a file on disk, the C entry points)
    for _ in 0..1000 * scale {
        o.case("persist");
        let p = some_p(&mut r);
        let k = some_k(&mut r);
        let hs = multiset(&mut r, p, thorough);
        o.op(&format!("new 0 {} {}", p, k));
        emit_adds(&mut o, &mut r, 0, &hs);
        o.op("save 0");
        let kinds = ["plain", "gz", "file", "ffi"];
        for (i, kind) in kinds.iter().enumerate() {
            if i == 0 || r.chance(1, 2) {
                o.op(&format!("rt {} 0 {}", i + 1, kind));
                o.op(&format!("eq {} 0", i + 1));
            }
        }
        // the loaded sketch as the ARGUMENT of a merge, into an empty and into a non-empty receiver
        o.op(&format!("new 7 {} {}", p, k));
        if r.chance(1, 2) {
            let pre = multiset(&mut r, p, false);
            emit_adds(&mut o, &mut r, 7, &pre);
            o.op("merge 0 7");
        }
        o.op(&format!("card 7 {}", api(&mut r)));
        o.op(if r.chance(1, 2) { "merge 7 1" } else { "mergeffi 7 1" });
        o.op("show 7");
        o.op("eq 7 0");
        o.op(&format!("card 7 {}", api(&mut r)));
        // a loaded sketch keeps working: more insertions, a merge with the original, save again
        let more = multiset(&mut r, p, false);
        emit_adds(&mut o, &mut r, 1, &more);
        o.op("show 1");
        o.op("merge 1 0");
        o.op("rt 5 1 plain");
        o.op("rt 6 5 gz");
        o.op("eq 6 1");
    }

    // F: every way content enters a sketch, interleaved, on empty and non-empty receivers.
    // Slot 0 is the sketch under test; slot 6 receives the same content through a different route
    // (plain add_hash of the MinHash's mins, add_many / hll_add_hash instead of merge, …).
    for _ in 0..1500 * scale {
        o.case("history");
        let p = some_p(&mut r);
        let k = *r.pick(&[3u64, 4, 7, 11, 21, 31, 32]);
        o.op(&format!("new 0 {} {}", p, k));
        o.op(&format!("new 6 {} {}", p, k));
        let nsteps = r.range(2, 6);
        let ask = r.chance(2, 3);
        for _ in 0..nsteps {
            if ask && r.chance(2, 3) {
                o.op(&format!("card 0 {}", api(&mut r)));
                if r.chance(1, 3) {
                    o.op(&format!("est 0 6 {}", api(&mut r)));
                }
            }
            match r.below(9) {
                0 | 1 => {
                    let hs = multiset(&mut r, p, false);
                    emit_adds(&mut o, &mut r, 0, &hs);
                    o.op(&format!("addmany 6 {}", show_nats(hs.iter().copied())));
                }
                2..=4 => {
                    let (num, scaled) = mh_params(&mut r);
                    let hs = mh_hashes(&mut r, p, scaled);
                    o.op(&format!(
                        "upd 0 {} {} {} {} {} {}",
                        if r.chance(2, 3) { "api" } else { "ffi" },
                        if r.chance(2, 3) { "vec" } else { "tree" },
                        num,
                        scaled,
                        r.below(2),
                        show_nats(hs.iter().copied())
                    ));
                    let mut mins = mins_of(num, scaled, &hs);
                    shuffle(&mut r, &mut mins);
                    o.op(&format!("add 6 {}", show_nats(mins.iter().copied())));
                }
                5 => {
                    let hs = multiset(&mut r, p, false);
                    o.op(&format!("new 7 {} {}", p, k));
                    emit_adds(&mut o, &mut r, 7, &hs);
                    // the argument as built, after a save/load, or as a clone
                    match r.below(4) {
                        0 => o.op(&format!("rtd 7 7 {}", r.pick(&ROUTES))),
                        1 => {
                            o.op("clone 5 7");
                            o.op("clone 7 5");
                        }
                        _ => {}
                    }
                    o.op(if r.chance(1, 2) { "merge 0 7" } else { "mergeffi 0 7" });
                    o.op(&format!("addffi 6 {}", show_nats(hs.iter().copied())));
                }
                6 | 7 => {
                    let s = some_dna(&mut r, k);
                    let force = r.below(2);
                    let (a, b) = if r.chance(1, 2) { ("api", "ffi") } else { ("ffi", "api") };
                    o.op(&format!("addseq 0 {} {} {}", a, force, s));
                    o.op(&format!("addseq 6 {} {} {}", b, force, s));
                }
                _ => {
                    let n = r.below(40) as usize;
                    let w: Vec<u8> = (0..n).map(|_| r.next() as u8).collect();
                    o.op(&format!("addword 0 {}", hex(&w)));
                    o.op(&format!("addword 6 {}", hex(&w)));
                }
            }
            if r.chance(1, 3) {
                o.op("show 0");
            }
            if ask && r.chance(1, 2) {
                o.op(&format!("card 0 {}", api(&mut r)));
            }
        }
        o.op("show 0");
        o.op("show 6");
        o.op("eq 0 6");
        o.op("dg 0");
        o.op(&format!("card 0 {}", api(&mut r)));
        o.op(&format!("card 6 {}", api(&mut r)));
        o.op(&format!("est 0 6 {}", api(&mut r)));
        if r.chance(1, 3) {
            o.op(&format!("rtd 1 0 {}", r.pick(&ROUTES)));
            o.op("eq 1 0");
        }
    }
    // a MinHash with thousands of new hashes pushed into a sketch that is already well filled
    for _ in 0..(if thorough { 120 } else { 40 }) {
        o.case("history-big");
        let p = r.range(6, 12) as u32;
        let m = 1u64 << p;
        o.op(&format!("new 0 {} 21", p));
        o.op(&format!("fill 0 rnd {} {} 256", r.bits(40), r.range(m / 2, 4 * m)));
        o.op("dg 0");
        o.op(&format!("card 0 {}", api(&mut r)));
        let (num, scaled) = if r.chance(1, 2) { (0, 1) } else { (r.range(500, 3000), 0) };
        let n = r.range(m, (10 * m).min(if thorough { 8000 } else { 5000 }).max(m));
        let hs: Vec<u64> = (0..n).map(|_| r.next()).collect();
        o.op(&format!("upd 0 {} vec {} {} 0 {}", if r.chance(1, 2) { "api" } else { "ffi" }, num, scaled, show_nats(hs.iter().copied())));
        o.op("dg 0");
        o.op(&format!("card 0 {}", api(&mut r)));
        if p <= 9 {
            o.op("show 0");
        }
        o.op(&format!("ashll 1 {} {} {}", num, scaled, show_nats(hs.iter().copied())));
    }

    // G: persistence of DENSE sketches, every precision, every route
    for rep in 0..(if thorough { 3 } else { 1 }) {
        for p in 4..=18u32 {
            for content in 0..4 {
                o.case("persist-all");
                let m = 1u64 << p;
                let k = some_k(&mut r);
                o.op(&format!("new 0 {} {}", p, k));
                let seed = r.bits(44);
                match content {
                    0 => o.op(&format!("fill 0 geo {} {} 256", seed, m)),
                    1 => o.op(&format!("fill 0 uni {} {} 256", seed, m)),
                    2 => o.op(&format!("fill 0 {} {} {} {}", if r.chance(1, 2) { "geo" } else { "uni" }, seed, m, r.range(8, 248))),
                    _ => {
                        o.op(&format!("fill 0 rnd {} {} 256", seed, r.range(m / 2, 3 * m)));
                        o.op(&format!("add 0 0,{},{}", m - 1, u64::MAX));
                    }
                }
                o.op("dg 0");
                if p <= 10 {
                    o.op("show 0");
                }
                for route in ROUTES.iter() {
                    // the one-byte reader on 2^18 registers is cheap; everything runs at every p
                    // the receiver of the loaded sketch: empty, or a sparse one (whose content the
                    // saved sketch gets as well, so that the merge must reproduce the saved sketch)
                    o.op(&format!("new 3 {} {}", p, k));
                    if r.chance(1, 2) {
                        o.op(&format!("fill 3 rnd {} {} 256", r.bits(40), r.range(1, 40)));
                        o.op("merge 0 3");
                    }
                    o.op(&format!("rtd 1 0 {}", route));
                    if rep > 0 && r.chance(1, 4) {
                        o.op("eq 1 0");
                    }
                    // what was loaded, merged INTO another sketch
                    o.op(if r.chance(1, 2) { "merge 3 1" } else { "mergeffi 3 1" });
                    o.op("eq 3 0");
                }
                o.op("eq 1 0");
                // a loaded sketch keeps working and saves again
                o.op(&format!("add 1 {}", show_nats((0..3).map(|_| some_hash(&mut r, p)))));
                o.op(&format!("rtd 2 1 {}", r.pick(&ROUTES)));
                o.op("eq 2 1");
            }
        }
    }

    // H: merging a sketch that was just LOADED / CLONED / CONVERTED (as_hll) into another one, and the
    // other way round, before and after further adds: merge is the register-wise max whatever way
    // the argument came into being.  Slot 0 = A, 1 = B, 2 = B after the route, 4 = the union sketched
    // directly, 5 = a collector that starts empty.
    for _ in 0..1200 * scale {
        o.case("merge-loaded");
        let conv = r.chance(1, 6);
        let (p, k) = if conv { (14u32, 21u64) } else { (some_p(&mut r), some_k(&mut r)) };
        let a = if r.chance(1, 5) { vec![] } else { multiset(&mut r, p, false) };
        let mut b = multiset(&mut r, p, false);
        if b.is_empty() {
            b.push(some_hash(&mut r, p));
        }
        o.op(&format!("new 0 {} {}", p, k));
        emit_adds(&mut o, &mut r, 0, &a);
        let mut all = a.clone();
        if conv {
            // B = as_hll() of a MinHash
            let (num, scaled) = mh_params(&mut r);
            let hs = mh_hashes(&mut r, p, scaled);
            o.op(&format!("ashll 1 {} {} {}", num, scaled, show_nats(hs.iter().copied())));
            all.extend(mins_of(num, scaled, &hs));
        } else {
            o.op(&format!("new 1 {} {}", p, k));
            emit_adds(&mut o, &mut r, 1, &b);
            all.extend(b.iter().copied());
        }
        // how the argument comes into being
        let src = match r.below(if conv { 7 } else { 6 }) {
            0 | 1 => {
                o.op(&format!("rtd 2 1 {}", r.pick(&ROUTES)));
                2
            }
            2 => {
                o.op(&format!("rt 2 1 {}", r.pick(&["plain", "gz", "file", "ffi"])));
                2
            }
            3 => {
                o.op("clone 2 1");
                2
            }
            4 => {
                // a clone of a loaded one
                o.op(&format!("rtd 3 1 {}", r.pick(&ROUTES)));
                o.op("clone 2 3");
                2
            }
            5 => {
                // loaded twice
                o.op(&format!("rtd 3 1 {}", r.pick(&ROUTES)));
                o.op(&format!("rtd 2 3 {}", r.pick(&ROUTES)));
                2
            }
            _ => 1, // the converted sketch itself
        };
        // further adds into the argument BEFORE the merge, now and then
        if r.chance(1, 4) {
            let more = multiset(&mut r, p, false);
            emit_adds(&mut o, &mut r, src, &more);
            all.extend(more);
        }
        let ask = r.chance(1, 2);
        if ask {
            o.op(&format!("card 0 {}", api(&mut r)));
            o.op(&format!("est 0 {} {}", src, api(&mut r)));
        }
        // the collector first (it must end up equal to the argument)
        o.op(&format!("new 5 {} {}", p, k));
        o.op(&format!("{} 5 {}", if r.chance(1, 2) { "merge" } else { "mergeffi" }, src));
        o.op(&format!("eq 5 {}", src));
        o.op(&format!("{} 0 {}", if r.chance(1, 2) { "merge" } else { "mergeffi" }, src));
        if p <= 9 {
            o.op("show 0");
        } else {
            o.op("dg 0");
        }
        if ask {
            o.op(&format!("card 0 {}", api(&mut r)));
            o.op(&format!("est 0 {} {}", src, api(&mut r)));
        }
        shuffle(&mut r, &mut all);
        o.op(&format!("new 4 {} {}", p, k));
        emit_adds(&mut o, &mut r, 4, &all);
        o.op("eq 0 4");
        // further adds into the receiver AFTER the merge
        if r.chance(1, 3) {
            let more = multiset(&mut r, p, false);
            emit_adds(&mut o, &mut r, 0, &more);
            emit_adds(&mut o, &mut r, 4, &more);
            o.op("eq 0 4");
            if ask {
                o.op(&format!("card 0 {}", api(&mut r)));
            }
        }
        // the other direction: the loaded / cloned / converted sketch as the receiver
        o.op(&format!("merge {} 0", src));
        o.op(&format!("eq {} 0", src));
        o.op(&format!("dg {}", src));
        // and what it received is handed on when it is the argument again
        o.op(&format!("new 6 {} {}", p, k));
        o.op(&format!("merge 6 {}", src));
        o.op("eq 6 4");
    }

    // E: malformed files
    o.case("loadraw");
    let base: Vec<u8> = {
        let mut v = b"HLL\x01\x04\x3c\x15".to_vec();
        v.extend((0..16u8).map(|i| i % 7));
        v
    };
    for n in 0..=base.len() {
        o.op(&format!("loadraw 0 {}", hex(&base[..n])));
    }
    for (at, val) in [(0usize, 0x49u8), (1, 0), (2, 0x4d), (3, 0), (3, 2), (4, 64), (4, 200), (4, 255), (4, 5), (4, 3), (4, 0), (5, 0), (5, 255), (6, 0), (6, 255)] {
        let mut v = base.clone();
        v[at] = val;
        o.op(&format!("loadraw 0 {}", hex(&v)));
        o.op("show 0");
    }
    let mut v = base.clone();
    v.extend_from_slice(b"trailing");
    o.op(&format!("loadraw 0 {}", hex(&v)));
    o.op("show 0");
    for _ in 0..40 * scale {
        let p = r.range(0, 7) as u8;
        let mut v = vec![b'H', b'L', b'L', 1, p, r.next() as u8, r.next() as u8];
        let n = match r.below(3) {
            0 => 1usize << p,
            1 => (1usize << p) + r.range(1, 9) as usize,
            _ => r.below(1 << p) as usize,
        };
        v.extend((0..n).map(|_| r.next() as u8));
        o.op(&format!("loadraw 0 {}", hex(&v)));
        o.op("show 0");
    }
}

// ------------------------------------------------------------------------------------ exec

type St = Vec<Option<HyperLogLog>>;

fn rle<I: IntoIterator<Item = u64>>(xs: I) -> String {
    let mut out = String::new();
    let mut cur: Option<(u64, u64)> = None;
    let flush = |out: &mut String, v: u64, n: u64| {
        if !out.is_empty() {
            out.push(',');
        }
        if n == 1 {
            out.push_str(&v.to_string());
        } else {
            out.push_str(&format!("{}*{}", v, n));
        }
    };
    for x in xs {
        match cur {
            Some((v, n)) if v == x => cur = Some((v, n + 1)),
            Some((v, n)) => {
                flush(&mut out, v, n);
                cur = Some((x, 1));
            }
            None => cur = Some((x, 1)),
        }
    }
    if let Some((v, n)) = cur {
        flush(&mut out, v, n);
    }
    if out.is_empty() {
        "-".into()
    } else {
        out
    }
}

fn saved(h: &HyperLogLog) -> Vec<u8> {
    let mut buf = Vec::new();
    h.save_to_writer(&mut buf).unwrap();
    buf
}

/// p, q, k are private: they are read back from the saved header (p also = log2 of size())
fn show(h: &HyperLogLog) -> String {
    let bytes = saved(h);
    let n = h.size();
    format!(
        "p={} q={} k={} n={} regs={}",
        bytes[4],
        bytes[5],
        h.ksize(),
        n,
        rle(h.to_vec())
    )
}

/// register digest for the sketches whose register dump would be too long to print
fn digest_regs(p: u8, q: u8, k: usize, regs: &[u64]) -> String {
    let nz = regs.iter().filter(|x| **x != 0).count();
    let sum: u64 = regs.iter().sum();
    let xor = regs.iter().fold(0u64, |a, x| a ^ x);
    let fnv = regs.iter().fold(0xcbf2_9ce4_8422_2325u64, |h, x| (h ^ x).wrapping_mul(0x0000_0100_0000_01b3));
    let n = regs.len();
    format!(
        "p={} q={} k={} n={} nz={} sum={} xor={} fnv={:016x} first={} last={}",
        p,
        q,
        k,
        n,
        nz,
        sum,
        xor,
        fnv,
        show_nats(regs[..8.min(n)].iter().copied()),
        show_nats(regs[n.saturating_sub(8)..].iter().copied())
    )
}

fn digest(h: &HyperLogLog) -> String {
    let bytes = saved(h);
    digest_regs(bytes[4], bytes[5], h.ksize(), &h.to_vec())
}

fn nz(h: &HyperLogLog) -> usize {
    h.to_vec().iter().filter(|x| **x != 0).count()
}

/// hands out at most `max` bytes per read() call (sizes cycle through 1..=max)
struct ShortReader {
    data: Vec<u8>,
    pos: usize,
    max: usize,
    tick: usize,
}
impl Read for ShortReader {
    fn read(&mut self, buf: &mut [u8]) -> std::io::Result<usize> {
        self.tick += 1;
        let want = 1 + (self.tick * 5) % self.max;
        let n = want.min(buf.len()).min(self.data.len() - self.pos);
        buf[..n].copy_from_slice(&self.data[self.pos..self.pos + n]);
        self.pos += n;
        Ok(n)
    }
}

/// accepts at most `max` bytes per write() call
struct ShortWriter {
    data: Vec<u8>,
    max: usize,
    tick: usize,
}
impl Write for ShortWriter {
    fn write(&mut self, buf: &[u8]) -> std::io::Result<usize> {
        self.tick += 1;
        let want = 1 + (self.tick * 3) % self.max;
        let n = want.min(buf.len());
        self.data.extend_from_slice(&buf[..n]);
        Ok(n)
    }
    fn flush(&mut self) -> std::io::Result<()> {
        Ok(())
    }
}

fn gz_level(n: &str) -> niffler::compression::Level {
    match n {
        "1" => niffler::compression::Level::One,
        "6" => niffler::compression::Level::Six,
        _ => niffler::compression::Level::Nine,
    }
}

fn cstring(s: &str) -> std::ffi::CString {
    std::ffi::CString::new(s).unwrap()
}

fn take_ffi_error() -> Option<sourmash::Error> {
    LAST_ERROR.with(|e| e.borrow_mut().take())
}

/// save `src` and load it back through one of the routes of the header comment
fn round_trip(src: &HyperLogLog, route: &str) -> Result<HyperLogLog, sourmash::Error> {
    let dir = tempfile::Builder::new().prefix("verif-c17-").tempdir().unwrap();
    let path = dir.path().join(if route.starts_with("gzfile") { "x.hll.gz" } else { "x.hll" });
    match route {
        "vec" => HyperLogLog::from_reader(&saved(src)[..]),
        "bufw" => {
            {
                let mut w = std::io::BufWriter::new(std::fs::File::create(&path).unwrap());
                src.save_to_writer(&mut w)?;
                w.flush().unwrap();
            }
            HyperLogLog::from_path(&path)
        }
        "path" => {
            src.save(&path)?;
            HyperLogLog::from_path(&path)
        }
        "ffifile" => unsafe {
            let c = cstring(path.to_str().unwrap());
            hll_save(SourmashHyperLogLog::from_ref(src), c.as_ptr());
            if let Some(e) = take_ffi_error() {
                return Err(e);
            }
            let p = hll_from_path(c.as_ptr());
            match take_ffi_error() {
                Some(e) => Err(e),
                None => Ok(*SourmashHyperLogLog::into_rust(p)),
            }
        },
        "gz1" | "gz6" | "gz9" | "gzr7" => {
            let mut buf = vec![];
            {
                let lvl = if route == "gzr7" { "6" } else { &route[2..] };
                let mut w = niffler::get_writer(Box::new(&mut buf), niffler::compression::Format::Gzip, gz_level(lvl))?;
                src.save_to_writer(&mut w)?;
            }
            assert!(buf[0] == 0x1f && buf[1] == 0x8b, "not gzip");
            if route == "gzr7" {
                HyperLogLog::from_reader(ShortReader { data: buf, pos: 0, max: 7, tick: 0 })
            } else {
                HyperLogLog::from_reader(&buf[..])
            }
        }
        "gzfile1" | "gzfile6" | "gzfile9" => {
            {
                let f = std::fs::File::create(&path).unwrap();
                let mut w = niffler::get_writer(Box::new(f), niffler::compression::Format::Gzip, gz_level(&route[6..]))?;
                src.save_to_writer(&mut w)?;
            }
            HyperLogLog::from_path(&path)
        }
        "ffi" => unsafe {
            let mut size = 0usize;
            let ptr = hll_to_buffer(SourmashHyperLogLog::from_ref(src), &mut size);
            if let Some(e) = take_ffi_error() {
                return Err(e);
            }
            let buf = Vec::from_raw_parts(ptr as *mut u8, size, size);
            let p = hll_from_buffer(buf.as_ptr() as *const c_char, buf.len());
            match take_ffi_error() {
                Some(e) => Err(e),
                None => Ok(*SourmashHyperLogLog::into_rust(p)),
            }
        },
        "r1" => HyperLogLog::from_reader(ShortReader { data: saved(src), pos: 0, max: 1, tick: 0 }),
        "r7" => HyperLogLog::from_reader(ShortReader { data: saved(src), pos: 0, max: 7, tick: 0 }),
        "br" => HyperLogLog::from_reader(std::io::BufReader::with_capacity(16, &saved(src)[..])),
        "w5" => {
            let mut w = ShortWriter { data: vec![], max: 5, tick: 0 };
            src.save_to_writer(&mut w)?;
            HyperLogLog::from_reader(&w.data[..])
        }
        "gzw5" => {
            let mut sw = ShortWriter { data: vec![], max: 5, tick: 0 };
            {
                let mut w = niffler::get_writer(Box::new(&mut sw), niffler::compression::Format::Gzip, gz_level("6"))?;
                src.save_to_writer(&mut w)?;
            }
            HyperLogLog::from_reader(&sw.data[..])
        }
        "json" => {
            let v = serde_json::to_vec(src).unwrap();
            Ok(serde_json::from_slice::<HyperLogLog>(&v).unwrap())
        }
        _ => panic!("route"),
    }
}

/// f64 as its bit pattern; NaN (0/0 of two empty sketches) has no canonical bits
fn fbits(x: f64) -> String {
    if x.is_nan() {
        "nan".into()
    } else {
        format!("{:016x}", x.to_bits())
    }
}

/// shared borrows of two slots (possibly the same one)
fn two(st: &St, a: usize, b: usize) -> Option<(&HyperLogLog, &HyperLogLog)> {
    match (st[a].as_ref(), st[b].as_ref()) {
        (Some(x), Some(y)) => Some((x, y)),
        _ => None,
    }
}

/// `dst` mutably and `src` shared, WITHOUT copying either (a copy could differ from the object in
/// whatever a sketch carries besides its registers); only `merge x x` needs a clone of the argument
fn with_pair<R>(st: &mut St, d: usize, s: usize, f: impl FnOnce(&mut HyperLogLog, &HyperLogLog) -> R) -> Option<R> {
    if d == s {
        let src = st[s].clone()?;
        return st[d].as_mut().map(|dst| f(dst, &src));
    }
    let src = st[s].take()?;
    let r = st[d].as_mut().map(|dst| f(dst, &src));
    st[s] = Some(src);
    r
}

/// a KmerMinHash (directly, or converted from a KmerMinHashBTree) that received `hs` in this order
fn build_mh(kind: &str, num: u64, scaled: u64, track: bool, hs: &[u64]) -> KmerMinHash {
    if kind == "tree" {
        let mut t = KmerMinHashBTree::new(scaled, 21, HashFunctions::Murmur64Dna, 42, track, num as u32);
        for h in hs {
            t.add_hash(*h);
        }
        t.into()
    } else {
        let mut v = KmerMinHash::new(scaled, 21, HashFunctions::Murmur64Dna, 42, track, num as u32);
        for h in hs {
            v.add_hash(*h);
        }
        v
    }
}

fn err_name(e: &sourmash::Error) -> String {
    let s = format!("{:?}", e);
    let end = s.find(|c: char| !c.is_alphanumeric()).unwrap_or(s.len());
    format!("err {}", &s[..end])
}

fn step(st: &mut St, ws: &[&str]) -> String {
    let slot = |i: usize| -> usize { ws[i].parse().unwrap() };
    match ws[0] {
        "case" => "ok".into(),
        "new" => {
            let p: u64 = ws[2].parse().unwrap();
            match HyperLogLog::new(p as usize, ws[3].parse().unwrap()) {
                Ok(h) => {
                    st[slot(1)] = Some(h);
                    "ok".into()
                }
                Err(e) => {
                    st[slot(1)] = None;
                    err_name(&e)
                }
            }
        }
        "add" => match st[slot(1)].as_mut() {
            Some(h) => {
                for x in parse_nats(ws[2]) {
                    h.add_hash(x);
                }
                format!("nz={}", h.to_vec().iter().filter(|x| **x != 0).count())
            }
            None => "none".into(),
        },
        "fill" => match st[slot(1)].as_mut() {
            Some(h) => {
                let p = h.size().trailing_zeros();
                let (seed, n, dens): (u64, u64, u64) = (ws[3].parse().unwrap(), ws[4].parse().unwrap(), ws[5].parse().unwrap());
                for i in 0..n {
                    if gen_keep(seed, i, dens) {
                        h.add_hash(gen_hash(ws[2], p, seed, i));
                    }
                }
                format!("nz={}", nz(h))
            }
            None => "none".into(),
        },
        "addmany" => match st[slot(1)].as_mut() {
            Some(h) => {
                h.add_many(&parse_nats(ws[2])).unwrap();
                format!("nz={}", nz(h))
            }
            None => "none".into(),
        },
        "addffi" => match st[slot(1)].as_mut() {
            Some(h) => {
                let ptr = h as *mut HyperLogLog as *mut SourmashHyperLogLog;
                for x in parse_nats(ws[2]) {
                    unsafe { hll_add_hash(ptr, x) };
                }
                assert!(take_ffi_error().is_none());
                format!("nz={}", nz(h))
            }
            None => "none".into(),
        },
        "addword" => match st[slot(1)].as_mut() {
            Some(h) => {
                h.add_word(&unhex(ws[2]));
                format!("nz={}", nz(h))
            }
            None => "none".into(),
        },
        "addseq" => match st[slot(1)].as_mut() {
            Some(h) => {
                let seq: &[u8] = if ws[4] == "-" { b"" } else { ws[4].as_bytes() };
                let force = ws[3] == "1";
                let res = if ws[2] == "ffi" {
                    unsafe {
                        hll_add_sequence(h as *mut HyperLogLog as *mut SourmashHyperLogLog, seq.as_ptr() as *const c_char, seq.len(), force);
                    }
                    match take_ffi_error() {
                        Some(e) => Err(e),
                        None => Ok(()),
                    }
                } else {
                    h.add_sequence(seq, force)
                };
                match res {
                    Ok(()) => format!("ok nz={}", nz(h)),
                    Err(e) => format!("{} nz={}", err_name(&e), nz(h)),
                }
            }
            None => "none".into(),
        },
        "upd" => match st[slot(1)].as_mut() {
            Some(h) => {
                let mh = build_mh(ws[3], ws[4].parse().unwrap(), ws[5].parse().unwrap(), ws[6] == "1", &parse_nats(ws[7]));
                if ws[2] == "ffi" {
                    unsafe { hll_update_mh(h as *mut HyperLogLog as *mut SourmashHyperLogLog, SourmashKmerMinHash::from_ref(&mh)) };
                    if let Some(e) = take_ffi_error() {
                        return err_name(&e);
                    }
                } else if let Err(e) = mh.update(h) {
                    return err_name(&e);
                }
                format!("mins={} nz={}", mh.mins().len(), nz(h))
            }
            None => "none".into(),
        },
        "ashll" => {
            let mh = build_mh("vec", ws[2].parse().unwrap(), ws[3].parse().unwrap(), false, &parse_nats(ws[4]));
            let h = mh.as_hll();
            let r = digest(&h);
            st[slot(1)] = Some(h);
            r
        }
        "mergeffi" => {
            let (d, s) = (slot(1), slot(2));
            let r = with_pair(st, d, s, |dst, src| {
                unsafe { hll_merge(dst as *mut HyperLogLog as *mut SourmashHyperLogLog, SourmashHyperLogLog::from_ref(src)) };
                match take_ffi_error() {
                    Some(e) => err_name(&e),
                    None => format!("ok nz={}", nz(dst)),
                }
            });
            r.unwrap_or_else(|| "none".into())
        }
        "clone" => {
            let (d, s) = (slot(1), slot(2));
            match st[s].as_ref() {
                Some(src) => {
                    let c = src.clone();
                    let r = format!("{} same={}", digest(&c), c == *src);
                    st[d] = Some(c);
                    r
                }
                None => "none".into(),
            }
        }
        "card" => match st[slot(1)].as_ref() {
            Some(h) => {
                if ws[2] == "ffi" {
                    let n = unsafe { hll_cardinality(SourmashHyperLogLog::from_ref(h)) };
                    match take_ffi_error() {
                        Some(e) => err_name(&e),
                        None => n.to_string(),
                    }
                } else {
                    h.cardinality().to_string()
                }
            }
            None => "none".into(),
        },
        "est" => match two(st, slot(1), slot(2)) {
            Some((a, b)) => {
                if ws[3] == "ffi" {
                    let (pa, pb) = unsafe { (SourmashHyperLogLog::from_ref(a), SourmashHyperLogLog::from_ref(b)) };
                    let (i, s, c) = unsafe { (hll_intersection_size(pa, pb), hll_similarity(pa, pb), hll_containment(pa, pb)) };
                    match take_ffi_error() {
                        Some(e) => err_name(&e),
                        None => format!("i={} s={} c={}", i, fbits(s), fbits(c)),
                    }
                } else {
                    format!("u={} i={} s={} c={}", a.union(b), a.intersection(b), fbits(a.similarity(b)), fbits(a.containment(b)))
                }
            }
            None => "none".into(),
        },
        "dg" => match st[slot(1)].as_ref() {
            Some(h) => digest(h),
            None => "none".into(),
        },
        "rtd" => {
            let (d, s) = (slot(1), slot(2));
            let src = match st[s].take() {
                Some(x) => x,
                None => return "none".into(),
            };
            st[d] = None;
            let res = std::panic::catch_unwind(std::panic::AssertUnwindSafe(|| round_trip(&src, ws[3])));
            let out = match res {
                Ok(Ok(h)) => {
                    let r = format!("{} same={}", digest(&h), h == src);
                    st[d] = Some(h);
                    r
                }
                Ok(Err(e)) => err_name(&e),
                Err(_) => "PANIC".into(),
            };
            if d != s {
                st[s] = Some(src);
            }
            out
        }
        "show" => match st[slot(1)].as_ref() {
            Some(h) => show(h),
            None => "none".into(),
        },
        "eq" => match (st[slot(1)].as_ref(), st[slot(2)].as_ref()) {
            (Some(a), Some(b)) => (a == b).to_string(),
            _ => "none".into(),
        },
        "merge" | "refused" => {
            let (d, s) = (slot(1), slot(2));
            let refused = ws[0] == "refused";
            let r = with_pair(st, d, s, |dst, src| {
                let before = if refused { Some(dst.clone()) } else { None };
                let res = dst.merge(src);
                if !refused {
                    match res {
                        Ok(()) => format!("ok nz={}", nz(dst)),
                        Err(e) => err_name(&e),
                    }
                } else {
                    match res {
                        Ok(()) => "merged".into(),
                        Err(_) if Some(&*dst) == before.as_ref() => "refused unchanged".into(),
                        Err(_) => "refused changed".into(),
                    }
                }
            });
            r.unwrap_or_else(|| "none".into())
        }
        "save" => match st[slot(1)].as_ref() {
            Some(h) => {
                let b = saved(h);
                format!("hdr={} len={} body={}", hex(&b[..7]), b.len(), rle(b[7..].iter().map(|x| *x as u64)))
            }
            None => "none".into(),
        },
        "rt" => {
            let (d, sl) = (slot(1), slot(2));
            let src = match st[sl].take() {
                Some(x) => x,
                None => return "none".into(),
            };
            let loaded: Result<HyperLogLog, sourmash::Error> = match ws[3] {
                "plain" => HyperLogLog::from_reader(&saved(&src)[..]),
                "gz" | "ffi" => unsafe {
                    // hll_to_buffer writes gzip through niffler
                    let mut size = 0usize;
                    let ptr = hll_to_buffer(SourmashHyperLogLog::from_ref(&src), &mut size);
                    assert!(!ptr.is_null());
                    let buf = Vec::from_raw_parts(ptr as *mut u8, size, size);
                    assert!(buf[0] == 0x1f && buf[1] == 0x8b, "not gzip");
                    if ws[3] == "gz" {
                        HyperLogLog::from_reader(&buf[..])
                    } else {
                        let p = hll_from_buffer(buf.as_ptr() as *const c_char, buf.len());
                        assert!(!p.is_null());
                        Ok(*SourmashHyperLogLog::into_rust(p))
                    }
                },
                "file" => {
                    let dir = tempfile::tempdir().unwrap();
                    let path = dir.path().join("x.hll");
                    src.save(&path).unwrap();
                    HyperLogLog::from_path(&path)
                }
                _ => {
                    st[sl] = Some(src);
                    return "bad-op".into();
                }
            };
            let out = match loaded {
                Ok(h) => {
                    let r = format!("{} same={}", show(&h), h == src);
                    st[d] = Some(h);
                    r
                }
                Err(e) => {
                    st[d] = None;
                    err_name(&e)
                }
            };
            if d != sl {
                st[sl] = Some(src);
            }
            out
        }
        "loadraw" => {
            st[slot(1)] = None;
            let bytes = unhex(ws.get(2).copied().unwrap_or("-"));
            match HyperLogLog::from_reader(&bytes[..]) {
                Ok(h) => {
                    st[slot(1)] = Some(h);
                    "ok".into()
                }
                Err(e) => err_name(&e),
            }
        }
        _ => "bad-op".into(),
    }
}

fn main() {
    let a = args();
    match a.mode.as_str() {
        "gen" => gen(&a),
        "exec" => exec_loop(|| vec![None; 8], step),
        _ => panic!("mode"),
    }
}
