//! C17: HyperLogLog sketches merge like set union and persist exactly.
//!
//! Eight sketch slots (0..7) per case.  Request lines
//!   case <n> <kind>
//!   new <slot> <p> <k>            HyperLogLog::new(p, k)                -> ok | err <Variant>
//!   add <slot> <h,h,...>          add_hash for each hash, in this order -> nz=<number of non-zero registers afterwards>
//!   show <slot>                   p=.. q=.. k=.. n=<#registers> regs=<run-length registers>
//!   eq <a> <b>                    PartialEq                             -> true | false
//!   merge <dst> <src>             dst.merge(&src)                       -> ok | err <Variant>
//!   refused <dst> <src>           merge again, observing the receiver   -> merged | refused unchanged | refused changed
//!   save <slot>                   save_to_writer                        -> hdr=<7 bytes hex> len=<n> body=<run-length>
//!   rt <dst> <src> plain|gz|file|ffi   save -> load into dst            -> <show of dst> same=<dst == src>
//!   loadraw <dst> <hex>           HyperLogLog::from_reader(bytes)       -> ok | err <Variant> | PANIC
use sourmash::ffi::hyperloglog::{hll_from_buffer, hll_to_buffer, SourmashHyperLogLog};
use sourmash::ffi::utils::ForeignObject;
use sourmash::signature::SigsTrait;
use sourmash::sketch::hyperloglog::HyperLogLog;
use std::os::raw::c_char;
use verif_harness::*;

// ------------------------------------------------------------------------------------ generator

/// a hash of one of the boundary-heavy kinds
fn some_hash(r: &mut Rng, p: u32) -> u64 {
    match r.below(14) {
        0 => 0,
        1 => u64::MAX,
        // upper 64-p bits all zero
        2 => r.below(1 << p),
        3 => (1u64 << p) - 1,
        // exactly one bit
        4 => 1u64 << r.below(64),
        5 => (1u64 << r.range(1, 63)) - 1,
        // the lowest of the upper bits, the highest bit
        6 => (1u64 << p) | r.below(1 << p),
        7 => (1u64 << 63) | r.below(1 << p),
        // random magnitude
        8 | 9 => r.bits(64),
        // one bucket, varying ranks
        10 => (r.bits(64) << p) | 5,
        11 => (r.bits(64 - p) << p) | ((1 << p) - 1),
        _ => r.next(),
    }
}

fn some_k(r: &mut Rng) -> u64 {
    // the file header stores k in one byte: k >= 256 is the recorded finding (corpus/C17/ksize256.ops)
    match r.below(8) {
        0 => 0,
        1 => 255,
        2 => 21,
        3 => 31,
        4 => 51,
        _ => r.range(1, 254),
    }
}

fn some_p(r: &mut Rng) -> u32 {
    // every precision, small ones more often (their register dumps are short)
    if r.chance(2, 3) {
        r.range(4, 9) as u32
    } else {
        r.range(4, 18) as u32
    }
}

fn multiset(r: &mut Rng, p: u32, thorough: bool) -> Vec<u64> {
    let n = match r.below(20) {
        0 => 0,
        1 => 1,
        2..=12 => r.range(2, 24),
        13..=17 => r.range(25, 120),
        18 => r.range(121, 600),
        _ => {
            if thorough {
                r.range(600, 20000)
            } else {
                r.range(600, 3000)
            }
        }
    };
    let mut v: Vec<u64> = Vec::with_capacity(n as usize);
    for _ in 0..n {
        if !v.is_empty() && r.chance(1, 8) {
            let d = *r.pick(&v);
            v.push(d); // duplicate
        } else {
            v.push(some_hash(r, p));
        }
    }
    v
}

fn shuffle(r: &mut Rng, v: &mut [u64]) {
    for i in (1..v.len()).rev() {
        let j = r.below(i as u64 + 1) as usize;
        v.swap(i, j);
    }
}

/// `add` lines for the hashes in the given order, split at random points
fn emit_adds(o: &mut Out, r: &mut Rng, slot: u32, hs: &[u64]) {
    let mut i = 0;
    while i < hs.len() {
        let n = if r.chance(1, 2) { hs.len() - i } else { r.range(1, (hs.len() - i) as u64) as usize };
        o.op(&format!("add {} {}", slot, show_nats(hs[i..i + n].iter().copied())));
        i += n;
    }
}

fn gen(a: &Args) {
    let mut r = Rng::new(a.seed);
    let mut o = Out::new();
    let thorough = a.tier == "thorough";
    let scale = if thorough { 12 } else { 1 };

    // every precision at least once with a dense dump, and the bounds of `new`
    o.case("new-bounds");
    for p in [0u64, 1, 2, 3, 4, 5, 17, 18, 19, 20, 32, 63, 64, 65, 255, 256, u32::MAX as u64, u64::MAX] {
        o.op(&format!("new 0 {} 21", p));
    }
    for p in 4..=18u32 {
        o.case("every-p");
        let k = some_k(&mut r);
        let hs: Vec<u64> = (0..if p <= 12 { 4u64 << p } else { 3000 }).map(|_| r.next()).collect();
        o.op(&format!("new 0 {} {}", p, k));
        emit_adds(&mut o, &mut r, 0, &hs);
        o.op(&format!("add 0 0,{},{}", (1u64 << p) - 1, u64::MAX));
        o.op("show 0");
        o.op("save 0");
        o.op("rt 1 0 plain");
        o.op("rt 2 0 gz");
        o.op("eq 1 2");
    }

    // A: insertion order and re-insertion
    for _ in 0..2500 * scale {
        o.case("order");
        let p = some_p(&mut r);
        let k = some_k(&mut r);
        let hs = multiset(&mut r, p, thorough);
        o.op(&format!("new 0 {} {}", p, k));
        emit_adds(&mut o, &mut r, 0, &hs);
        o.op("show 0");
        let orders = r.range(1, 3);
        for s in 1..=orders as u32 {
            let mut hs2 = hs.clone();
            match r.below(4) {
                0 => hs2.reverse(),
                1 => hs2.sort_unstable(),
                _ => shuffle(&mut r, &mut hs2),
            }
            // re-insert some of what is already there
            if !hs2.is_empty() && r.chance(1, 2) {
                for _ in 0..r.range(1, 5) {
                    let d = *r.pick(&hs2);
                    let at = r.below(hs2.len() as u64 + 1) as usize;
                    hs2.insert(at, d);
                }
            }
            o.op(&format!("new {} {} {}", s, p, k));
            emit_adds(&mut o, &mut r, s, &hs2);
            o.op(&format!("show {}", s));
            o.op(&format!("eq 0 {}", s));
        }
    }

    // B: merge algebra and the union homomorphism
    for _ in 0..1800 * scale {
        o.case("merge");
        let p = some_p(&mut r);
        let k = some_k(&mut r);
        let sets: Vec<Vec<u64>> = (0..3).map(|_| multiset(&mut r, p, thorough)).collect();
        for (s, hs) in sets.iter().enumerate() {
            o.op(&format!("new {} {} {}", s, p, k));
            emit_adds(&mut o, &mut r, s as u32, hs);
        }
        // 3 = (A ∪ B) ∪ C
        o.op(&format!("new 3 {} {}", p, k));
        o.op("merge 3 0");
        o.op("merge 3 1");
        o.op("merge 3 2");
        o.op("show 3");
        // 4 = A ∪ (B ∪ C), 5 = B ∪ C
        o.op(&format!("new 5 {} {}", p, k));
        o.op("merge 5 2");
        o.op("merge 5 1");
        o.op(&format!("new 4 {} {}", p, k));
        o.op("merge 4 5");
        o.op("merge 4 0");
        o.op("show 4");
        o.op("eq 3 4");
        // 6 = sketch of the union inserted directly, in some order
        let mut all: Vec<u64> = sets.concat();
        shuffle(&mut r, &mut all);
        o.op(&format!("new 6 {} {}", p, k));
        emit_adds(&mut o, &mut r, 6, &all);
        o.op("show 6");
        o.op("eq 3 6");
        // idempotence, merging into a non-empty receiver, commutativity on the operands themselves
        o.op("merge 3 3");
        o.op("merge 3 0");
        o.op("show 3");
        o.op("eq 3 6");
        match r.below(3) {
            0 => {
                // 0 := A ∪ B, 1 := B ∪ A
                o.op(&format!("new 7 {} {}", p, k));
                o.op("merge 7 1");
                o.op("merge 7 0");
                o.op("merge 0 1");
                o.op("eq 0 7");
                o.op("show 0");
            }
            1 => {
                // keep inserting after a merge
                let more = multiset(&mut r, p, false);
                emit_adds(&mut o, &mut r, 3, &more);
                o.op("show 3");
            }
            _ => {}
        }
    }

    // C: incompatible sketches refuse to merge and stay as they were
    for _ in 0..1000 * scale {
        o.case("refuse");
        let (p0, k0) = (some_p(&mut r), some_k(&mut r));
        let (p1, k1) = match r.below(4) {
            0 => (p0, if k0 == 21 { 31 } else { 21 }),
            1 => (if p0 == 18 { 17 } else { p0 + 1 }, k0),
            2 => (some_p(&mut r), some_k(&mut r)),
            _ => (if p0 == 4 { 5 } else { p0 - 1 }, k0 + 1),
        };
        let a = multiset(&mut r, p0, false);
        let b = multiset(&mut r, p1, false);
        o.op(&format!("new 0 {} {}", p0, k0));
        emit_adds(&mut o, &mut r, 0, &a);
        o.op(&format!("new 1 {} {}", p1, k1));
        emit_adds(&mut o, &mut r, 1, &b);
        o.op("merge 0 1");
        o.op("refused 0 1");
        o.op("show 0");
        o.op("merge 1 0");
        o.op("refused 1 0");
        o.op("show 1");
        if r.chance(1, 2) {
            // still usable afterwards
            let more = multiset(&mut r, p0, false);
            emit_adds(&mut o, &mut r, 0, &more);
            o.op("show 0");
        }
    }

    // D: persistence (plain bytes, gzip through niffler, a file on disk, the C entry points)
    for _ in 0..1000 * scale {
        o.case("persist");
        let p = some_p(&mut r);
        let k = some_k(&mut r);
        let hs = multiset(&mut r, p, thorough);
        o.op(&format!("new 0 {} {}", p, k));
        emit_adds(&mut o, &mut r, 0, &hs);
        o.op("save 0");
        let kinds = ["plain", "gz", "file", "ffi"];
        for (i, kind) in kinds.iter().enumerate() {
            if i == 0 || r.chance(1, 2) {
                o.op(&format!("rt {} 0 {}", i + 1, kind));
                o.op(&format!("eq {} 0", i + 1));
            }
        }
        // a loaded sketch keeps working: more insertions, a merge with the original, save again
        let more = multiset(&mut r, p, false);
        emit_adds(&mut o, &mut r, 1, &more);
        o.op("show 1");
        o.op("merge 1 0");
        o.op("rt 5 1 plain");
        o.op("rt 6 5 gz");
        o.op("eq 6 1");
    }

    // E: malformed files
    o.case("loadraw");
    let base: Vec<u8> = {
        let mut v = b"HLL\x01\x04\x3c\x15".to_vec();
        v.extend((0..16u8).map(|i| i % 7));
        v
    };
    for n in 0..=base.len() {
        o.op(&format!("loadraw 0 {}", hex(&base[..n])));
    }
    for (at, val) in [(0usize, 0x49u8), (1, 0), (2, 0x4d), (3, 0), (3, 2), (4, 64), (4, 200), (4, 255), (4, 5), (4, 3), (4, 0), (5, 0), (5, 255), (6, 0), (6, 255)] {
        let mut v = base.clone();
        v[at] = val;
        o.op(&format!("loadraw 0 {}", hex(&v)));
        o.op("show 0");
    }
    let mut v = base.clone();
    v.extend_from_slice(b"trailing");
    o.op(&format!("loadraw 0 {}", hex(&v)));
    o.op("show 0");
    for _ in 0..40 * scale {
        let p = r.range(0, 7) as u8;
        let mut v = vec![b'H', b'L', b'L', 1, p, r.next() as u8, r.next() as u8];
        let n = match r.below(3) {
            0 => 1usize << p,
            1 => (1usize << p) + r.range(1, 9) as usize,
            _ => r.below(1 << p) as usize,
        };
        v.extend((0..n).map(|_| r.next() as u8));
        o.op(&format!("loadraw 0 {}", hex(&v)));
        o.op("show 0");
    }
}

// ------------------------------------------------------------------------------------ exec

type St = Vec<Option<HyperLogLog>>;

fn rle<I: IntoIterator<Item = u64>>(xs: I) -> String {
    let mut out = String::new();
    let mut cur: Option<(u64, u64)> = None;
    let flush = |out: &mut String, v: u64, n: u64| {
        if !out.is_empty() {
            out.push(',');
        }
        if n == 1 {
            out.push_str(&v.to_string());
        } else {
            out.push_str(&format!("{}*{}", v, n));
        }
    };
    for x in xs {
        match cur {
            Some((v, n)) if v == x => cur = Some((v, n + 1)),
            Some((v, n)) => {
                flush(&mut out, v, n);
                cur = Some((x, 1));
            }
            None => cur = Some((x, 1)),
        }
    }
    if let Some((v, n)) = cur {
        flush(&mut out, v, n);
    }
    if out.is_empty() {
        "-".into()
    } else {
        out
    }
}

fn saved(h: &HyperLogLog) -> Vec<u8> {
    let mut buf = Vec::new();
    h.save_to_writer(&mut buf).unwrap();
    buf
}

/// p, q, k are private: they are read back from the saved header (p also = log2 of size())
fn show(h: &HyperLogLog) -> String {
    let bytes = saved(h);
    let n = h.size();
    format!(
        "p={} q={} k={} n={} regs={}",
        bytes[4],
        bytes[5],
        h.ksize(),
        n,
        rle(h.to_vec())
    )
}

fn err_name(e: &sourmash::Error) -> String {
    let s = format!("{:?}", e);
    let end = s.find(|c: char| !c.is_alphanumeric()).unwrap_or(s.len());
    format!("err {}", &s[..end])
}

fn step(st: &mut St, ws: &[&str]) -> String {
    let slot = |i: usize| -> usize { ws[i].parse().unwrap() };
    match ws[0] {
        "case" => "ok".into(),
        "new" => {
            let p: u64 = ws[2].parse().unwrap();
            match HyperLogLog::new(p as usize, ws[3].parse().unwrap()) {
                Ok(h) => {
                    st[slot(1)] = Some(h);
                    "ok".into()
                }
                Err(e) => {
                    st[slot(1)] = None;
                    err_name(&e)
                }
            }
        }
        "add" => match st[slot(1)].as_mut() {
            Some(h) => {
                for x in parse_nats(ws[2]) {
                    h.add_hash(x);
                }
                format!("nz={}", h.to_vec().iter().filter(|x| **x != 0).count())
            }
            None => "none".into(),
        },
        "show" => match st[slot(1)].as_ref() {
            Some(h) => show(h),
            None => "none".into(),
        },
        "eq" => match (st[slot(1)].as_ref(), st[slot(2)].as_ref()) {
            (Some(a), Some(b)) => (a == b).to_string(),
            _ => "none".into(),
        },
        "merge" | "refused" => {
            let (d, s) = (slot(1), slot(2));
            let src = match st[s].clone() {
                Some(x) => x,
                None => return "none".into(),
            };
            let dst = match st[d].as_mut() {
                Some(x) => x,
                None => return "none".into(),
            };
            let before = dst.clone();
            let res = dst.merge(&src);
            if ws[0] == "merge" {
                match res {
                    Ok(()) => "ok".into(),
                    Err(e) => err_name(&e),
                }
            } else {
                match res {
                    Ok(()) => "merged".into(),
                    Err(_) if *dst == before => "refused unchanged".into(),
                    Err(_) => "refused changed".into(),
                }
            }
        }
        "save" => match st[slot(1)].as_ref() {
            Some(h) => {
                let b = saved(h);
                format!("hdr={} len={} body={}", hex(&b[..7]), b.len(), rle(b[7..].iter().map(|x| *x as u64)))
            }
            None => "none".into(),
        },
        "rt" => {
            let src = match st[slot(2)].clone() {
                Some(x) => x,
                None => return "none".into(),
            };
            let loaded: Result<HyperLogLog, sourmash::Error> = match ws[3] {
                "plain" => HyperLogLog::from_reader(&saved(&src)[..]),
                "gz" | "ffi" => unsafe {
                    // hll_to_buffer writes gzip through niffler
                    let mut size = 0usize;
                    let ptr = hll_to_buffer(SourmashHyperLogLog::from_ref(&src), &mut size);
                    assert!(!ptr.is_null());
                    let buf = Vec::from_raw_parts(ptr as *mut u8, size, size);
                    assert!(buf[0] == 0x1f && buf[1] == 0x8b, "not gzip");
                    if ws[3] == "gz" {
                        HyperLogLog::from_reader(&buf[..])
                    } else {
                        let p = hll_from_buffer(buf.as_ptr() as *const c_char, buf.len());
                        assert!(!p.is_null());
                        Ok(*SourmashHyperLogLog::into_rust(p))
                    }
                },
                "file" => {
                    let dir = tempfile::tempdir().unwrap();
                    let path = dir.path().join("x.hll");
                    src.save(&path).unwrap();
                    HyperLogLog::from_path(&path)
                }
                _ => return "bad-op".into(),
            };
            match loaded {
                Ok(h) => {
                    let r = format!("{} same={}", show(&h), h == src);
                    st[slot(1)] = Some(h);
                    r
                }
                Err(e) => {
                    st[slot(1)] = None;
                    err_name(&e)
                }
            }
        }
        "loadraw" => {
            st[slot(1)] = None;
            let bytes = unhex(ws.get(2).copied().unwrap_or("-"));
            match HyperLogLog::from_reader(&bytes[..]) {
                Ok(h) => {
                    st[slot(1)] = Some(h);
                    "ok".into()
                }
                Err(e) => err_name(&e),
            }
        }
        _ => "bad-op".into(),
    }
}

fn main() {
    let a = args();
    match a.mode.as_str() {
        "gen" => gen(&a),
        "exec" => exec_loop(|| vec![None; 8], step),
        _ => panic!("mode"),
    }
}
