//! C04: downsampling commutes with sketching and with every comparison.
//!
//! Registers hold real `KmerMinHash` / `KmerMinHashBTree` values; see lean/Driver/C04.lean for the
//! model/spec side of every op.
use sourmash::cmd::ComputeParameters;
use sourmash::encodings::HashFunctions;
use sourmash::prelude::*;
use sourmash::selection::Selection;
use sourmash::index::calculate_gather_stats;
use sourmash::signature::{Signature, SigsTrait};
use sourmash::storage::SigStore;
use sourmash::sketch::minhash::{max_hash_for_scaled, KmerMinHash, KmerMinHashBTree};
use sourmash::sketch::Sketch;
use sourmash::ffi::minhash::{kmerminhash_add_from, kmerminhash_free, kmerminhash_new, SourmashKmerMinHash};
use sourmash::ffi::utils::ForeignObject;
use sourmash::ffi::HashFunctions as FfiHashFunctions;
use std::collections::{BTreeMap, BTreeSet};
use verif_harness::*;

#[derive(Clone)]
enum Reg {
    V(KmerMinHash),
    T(KmerMinHashBTree),
}

fn mol(s: &str) -> HashFunctions {
    match s {
        "protein" => HashFunctions::Murmur64Protein,
        "dayhoff" => HashFunctions::Murmur64Dayhoff,
        "hp" => HashFunctions::Murmur64Hp,
        _ => HashFunctions::Murmur64Dna,
    }
}

fn mol_name(h: &HashFunctions) -> &'static str {
    match h {
        HashFunctions::Murmur64Dna => "dna",
        HashFunctions::Murmur64Protein => "protein",
        HashFunctions::Murmur64Dayhoff => "dayhoff",
        HashFunctions::Murmur64Hp => "hp",
        _ => "custom",
    }
}

/// every parameter a sketch carries, then its content
fn obsp(r: &Reg) -> String {
    let (k, h, seed) = match r {
        Reg::V(x) => (x.ksize(), x.hash_function(), x.seed()),
        Reg::T(x) => (x.ksize(), x.hash_function(), x.seed()),
    };
    format!("k={} mol={} seed={} {}", k, mol_name(&h), seed, obs(r))
}

fn reg_of(s: &Sketch) -> Option<Reg> {
    match s {
        Sketch::MinHash(x) => Some(Reg::V(x.clone())),
        Sketch::LargeMinHash(x) => Some(Reg::T(x.clone())),
        _ => None,
    }
}

fn show_sketches(sk: &[Sketch], full: bool) -> String {
    let mut out = format!("n={}", sk.len());
    for s in sk {
        let r = match reg_of(s) {
            Some(r) => r,
            None => return "bad-sketch".into(),
        };
        out.push_str(" | ");
        out.push_str(&if full { obsp(&r) } else { obs(&r) });
    }
    out
}

/// the retain test of `Signature::select` for a scaled request followed by an EXPLICIT
/// `downsample_scaled` of every retained sketch (the route the property compares `select` with)
fn select_explicit(sk: &[Sketch], s: u64) -> Result<Vec<Sketch>, sourmash::Error> {
    let mut out = vec![];
    for x in sk {
        match x {
            Sketch::MinHash(mh) if mh.scaled() != 0 && mh.scaled() <= s => {
                out.push(Sketch::MinHash(mh.clone().downsample_scaled(s)?))
            }
            Sketch::LargeMinHash(mh) if mh.scaled() != 0 && mh.scaled() <= s => {
                out.push(Sketch::LargeMinHash(mh.clone().downsample_scaled(s)?))
            }
            _ => {}
        }
    }
    Ok(out)
}

fn obs(r: &Reg) -> String {
    let (num, mh, m, a) = match r {
        Reg::V(x) => (x.num(), x.max_hash(), x.mins(), x.abunds()),
        Reg::T(x) => (x.num(), x.max_hash(), x.mins(), x.abunds()),
    };
    format!(
        "num={} mh={} mins={} abunds={}",
        num,
        mh,
        show_nats(m),
        match a {
            Some(a) => show_nats(a),
            None => "none".into(),
        }
    )
}

fn parse_pairs(s: &str) -> Vec<(u64, u64)> {
    if s == "-" || s.is_empty() {
        return vec![];
    }
    s.split(',')
        .map(|w| {
            let mut it = w.split(':');
            let h = it.next().unwrap().parse().unwrap();
            let a = it.next().map(|x| x.parse().unwrap()).unwrap_or(1);
            (h, a)
        })
        .collect()
}


fn ffi_mol(h: &HashFunctions) -> FfiHashFunctions {
    match h {
        HashFunctions::Murmur64Protein => FfiHashFunctions::Murmur64Protein,
        HashFunctions::Murmur64Dayhoff => FfiHashFunctions::Murmur64Dayhoff,
        HashFunctions::Murmur64Hp => FfiHashFunctions::Murmur64Hp,
        _ => FfiHashFunctions::Murmur64Dna,
    }
}

/// the JSON text `Serialize` writes for a sketch with the given fields (hashes in the given order)
fn sketch_json(num: u32, ksize: u32, seed: u64, max_hash: u64, m: &str, track: bool, items: &[(u64, u64)]) -> String {
    let mut sorted: Vec<u64> = items.iter().map(|p| p.0).collect();
    sorted.sort();
    let md5 = KmerMinHash::builder().num(0u32).ksize(ksize).mins(sorted).build().md5sum();
    let mins: Vec<String> = items.iter().map(|p| p.0.to_string()).collect();
    let abs: Vec<String> = items.iter().map(|p| p.1.to_string()).collect();
    format!(
        "{{\"num\":{},\"ksize\":{},\"seed\":{},\"max_hash\":{},\"mins\":[{}],\"md5sum\":\"{}\",{}\"molecule\":\"{}\"}}",
        num,
        ksize,
        seed,
        max_hash,
        mins.join(","),
        md5,
        if track { format!("\"abundances\":[{}],", abs.join(",")) } else { String::new() },
        m
    )
}

/// a sketch that is NOT made by `new` + insertions: the public builders (`b`: content handed over,
/// the tree's `current_max` left to the builder's default, which derives it from `mins`; `bc`: the
/// tree's `current_max` given explicitly - `cm`, or the largest hash when `cm` is `None`; an explicit
/// value is taken as it is, so it may be stale) or `Deserialize` of a JSON document (`js`, hashes in
/// the order given)
fn build_reg(tree: bool, ctor: &str, max_hash: u64, num: u32, ksize: u32, m: &str, seed: u64, track: bool, items: &[(u64, u64)], cm: Option<u64>) -> Option<Reg> {
    Some(match (ctor, tree) {
        ("js", false) => Reg::V(serde_json::from_str(&sketch_json(num, ksize, seed, max_hash, m, track, items)).unwrap()),
        ("js", true) => Reg::T(serde_json::from_str(&sketch_json(num, ksize, seed, max_hash, m, track, items)).unwrap()),
        ("b" | "bc", false) => Reg::V(
            KmerMinHash::builder()
                .num(num)
                .ksize(ksize)
                .hash_function(mol(m))
                .seed(seed)
                .max_hash(max_hash)
                .mins(items.iter().map(|p| p.0).collect::<Vec<u64>>())
                .abunds(if track { Some(items.iter().map(|p| p.1).collect::<Vec<u64>>()) } else { None })
                .build(),
        ),
        ("b", true) => Reg::T(
            KmerMinHashBTree::builder()
                .num(num)
                .ksize(ksize)
                .hash_function(mol(m))
                .seed(seed)
                .max_hash(max_hash)
                .mins(items.iter().map(|p| p.0).collect::<BTreeSet<u64>>())
                .abunds(if track { Some(items.iter().cloned().collect::<BTreeMap<u64, u64>>()) } else { None })
                .build(),
        ),
        ("bc", true) => Reg::T(
            KmerMinHashBTree::builder()
                .num(num)
                .ksize(ksize)
                .hash_function(mol(m))
                .seed(seed)
                .max_hash(max_hash)
                .mins(items.iter().map(|p| p.0).collect::<BTreeSet<u64>>())
                .abunds(if track { Some(items.iter().cloned().collect::<BTreeMap<u64, u64>>()) } else { None })
                .current_max(cm.unwrap_or_else(|| items.iter().map(|p| p.0).max().unwrap_or(0)))
                .build(),
        ),
        _ => return None,
    })
}

/// `Clone`, the `From` conversions to the other container type and back (by value / through the
/// by-reference impl where there is one), `Serialize` -> `Deserialize`
fn convert(r: &Reg, how: &str) -> Option<Reg> {
    Some(match (how, r) {
        ("clone", x) => x.clone(),
        ("rt", Reg::V(x)) => Reg::V(KmerMinHash::from(KmerMinHashBTree::from(x.clone()))),
        ("rtr", Reg::V(x)) => Reg::V(KmerMinHash::from(&KmerMinHashBTree::from(x.clone()))),
        ("rt", Reg::T(x)) => Reg::T(KmerMinHashBTree::from(KmerMinHash::from(x.clone()))),
        ("rtr", Reg::T(x)) => Reg::T(KmerMinHashBTree::from(KmerMinHash::from(x))),
        ("serde", Reg::V(x)) => Reg::V(serde_json::from_str(&serde_json::to_string(x).unwrap()).unwrap()),
        ("serde", Reg::T(x)) => Reg::T(serde_json::from_str(&serde_json::to_string(x).unwrap()).unwrap()),
        _ => return None,
    })
}

struct St {
    tree: bool,
    regs: BTreeMap<u64, Reg>,
    /// the signature built by `fpnew` (Signature::from_params) and fed by `fpadd`
    sig: Option<Signature>,
}

fn err<E: std::fmt::Debug>(e: E) -> String {
    let s = format!("{:?}", e);
    let name: String = s.chars().take_while(|c| c.is_alphanumeric()).collect();
    format!("err {}", name)
}

fn bits(x: f64) -> String {
    format!("{:016x}", x.to_bits())
}

fn fbits(x: f64) -> String {
    if x.is_nan() {
        "nan".into()
    } else {
        bits(x)
    }
}

fn scaled_of(r: &Reg) -> u64 {
    match r {
        Reg::V(x) => x.scaled(),
        Reg::T(x) => x.scaled(),
    }
}

fn ds(r: &Reg, s: u64) -> Result<Reg, sourmash::Error> {
    Ok(match r {
        Reg::V(x) => Reg::V(x.clone().downsample_scaled(s)?),
        Reg::T(x) => Reg::T(x.clone().downsample_scaled(s)?),
    })
}

fn step(st: &mut St, ws: &[&str]) -> String {
    let n = |i: usize| -> u64 { ws[i].parse().unwrap() };
    // operand registers must exist (a refused downsample leaves its target register unset)
    let srcs: &[usize] = match ws[0] {
        "obs" | "scaled" | "add" | "addm" | "set" | "rm" | "clear" | "md5" => &[1],
        "copy" | "ds" | "dsm" | "conv" | "pour" => &[2],
        "merge" | "isect" | "cc" | "sim" | "ccx" | "simx" | "iszx" | "gstats" | "gstatsx" | "addfrom" | "caddfrom" | "rmfrom" => &[1, 2],
        _ => &[],
    };
    if srcs.iter().any(|&i| !st.regs.contains_key(&n(i))) {
        return "bad-reg".into();
    }
    if (ws[0] == "sel" || ws[0] == "selx") && ws[2..].iter().any(|w| !st.regs.contains_key(&w.parse().unwrap())) {
        return "bad-reg".into();
    }
    match ws[0] {
        "case" => {
            st.tree = ws.get(2) == Some(&"tree");
            st.regs.clear();
            st.sig = None;
            "ok".into()
        }
        "new" => {
            let (scaled, num, ksize, seed, track) = (n(2), n(3) as u32, n(4) as u32, n(6), ws[7] == "1");
            let r = if st.tree {
                Reg::T(KmerMinHashBTree::new(scaled, ksize, mol(ws[5]), seed, track, num))
            } else {
                Reg::V(KmerMinHash::new(scaled, ksize, mol(ws[5]), seed, track, num))
            };
            st.regs.insert(n(1), r);
            "ok".into()
        }
        // build R ctor max_hash num ksize mol seed track items
        "build" => match build_reg(st.tree, ws[2], n(3), n(4) as u32, n(5) as u32, ws[6], n(7), ws[8] == "1", &parse_pairs(ws[9]), ws.get(10).map(|w| w.parse().unwrap())) {
            Some(r) => {
                let s = obs(&r);
                st.regs.insert(n(1), r);
                s
            }
            None => "bad-op".into(),
        },
        "newdef" => {
            let r = if st.tree { Reg::T(KmerMinHashBTree::default()) } else { Reg::V(KmerMinHash::default()) };
            let s = obsp(&r);
            st.regs.insert(n(1), r);
            s
        }
        // conv R1 R2 how : R1 := R2 through Clone / From conversions / serde
        "conv" => match convert(&st.regs[&n(2)], ws[3]) {
            Some(r) => {
                let s = obsp(&r);
                st.regs.insert(n(1), r);
                s
            }
            None => "bad-op".into(),
        },
        // addm R h,h,.. : add_many
        "addm" => {
            let hs = parse_nats(ws[2]);
            let r = st.regs.get_mut(&n(1)).unwrap();
            match r {
                Reg::V(x) => x.add_many(&hs).unwrap(),
                Reg::T(x) => x.add_many(&hs).unwrap(),
            }
            obs(r)
        }
        // addfrom R1 R2 / rmfrom R1 R2 : no compatibility check in either; caddfrom: the C API export
        "addfrom" | "rmfrom" | "caddfrom" => {
            let b = st.regs[&n(2)].clone();
            let r = st.regs.get_mut(&n(1)).unwrap();
            match (ws[0], &mut *r, &b) {
                ("addfrom", Reg::V(x), Reg::V(y)) => x.add_from(y).unwrap(),
                ("addfrom", Reg::T(x), Reg::T(y)) => x.add_from(y).unwrap(),
                ("rmfrom", Reg::V(x), Reg::V(y)) => x.remove_from(y).unwrap(),
                ("rmfrom", Reg::T(x), Reg::T(y)) => x.remove_many(y.mins()).unwrap(),
                ("caddfrom", Reg::V(x), Reg::V(y)) => unsafe {
                    let h = SourmashKmerMinHash::from_rust(x.clone());
                    kmerminhash_add_from(h, SourmashKmerMinHash::from_ref(y));
                    *x = *SourmashKmerMinHash::into_rust(h);
                },
                _ => return "bad-op".into(),
            }
            obs(r)
        }
        // pour R1 R2 s how : the "sketch at the new value and pour the old one in" way of downsampling:
        // R1 := new(s, parameters of R2), then add_from(R2) (native), kmerminhash_new +
        // kmerminhash_add_from (capi), add_many(R2.mins()) (many), add_many_with_abund(R2.to_vec_abunds()) (abund)
        "pour" => {
            let s = n(3);
            let r = match (&st.regs[&n(2)], ws[4]) {
                (Reg::V(y), "capi") => unsafe {
                    let h = kmerminhash_new(s, y.ksize() as u32, ffi_mol(&y.hash_function()), y.seed(), y.track_abundance(), y.num());
                    kmerminhash_add_from(h, SourmashKmerMinHash::from_ref(y));
                    let out = SourmashKmerMinHash::as_rust(h).clone();
                    kmerminhash_free(h);
                    Reg::V(out)
                },
                (Reg::V(y), how) => {
                    let mut x = KmerMinHash::new(s, y.ksize() as u32, y.hash_function(), y.seed(), y.track_abundance(), y.num());
                    match how {
                        "native" => x.add_from(y).unwrap(),
                        "many" => x.add_many(&y.mins()).unwrap(),
                        "abund" => x.add_many_with_abund(&y.to_vec_abunds()).unwrap(),
                        _ => return "bad-op".into(),
                    }
                    Reg::V(x)
                }
                (Reg::T(y), how) => {
                    let mut x = KmerMinHashBTree::new(s, y.ksize() as u32, y.hash_function(), y.seed(), y.track_abundance(), y.num());
                    match how {
                        "native" => x.add_from(y).unwrap(),
                        "many" => x.add_many(&y.mins()).unwrap(),
                        "abund" => x.add_many_with_abund(&y.to_vec_abunds()).unwrap(),
                        _ => return "bad-op".into(),
                    }
                    Reg::T(x)
                }
            };
            let o = obs(&r);
            st.regs.insert(n(1), r);
            o
        }
        "copy" => {
            let b = st.regs[&n(2)].clone();
            st.regs.insert(n(1), b);
            "ok".into()
        }
        "obs" => obs(&st.regs[&n(1)]),
        "scaled" => format!("scaled={}", scaled_of(&st.regs[&n(1)])),
        "add" => {
            let ps = parse_pairs(ws[2]);
            let r = st.regs.get_mut(&n(1)).unwrap();
            match r {
                Reg::V(x) => x.add_many_with_abund(&ps).unwrap(),
                Reg::T(x) => x.add_many_with_abund(&ps).unwrap(),
            }
            obs(r)
        }
        // set R h a : KmerMinHash::set_hash_with_abundance (vector type only)
        "set" => {
            let r = st.regs.get_mut(&n(1)).unwrap();
            match r {
                Reg::V(x) => x.set_hash_with_abundance(n(2), n(3)),
                Reg::T(_) => return "bad-op".into(),
            }
            obs(r)
        }
        "merge" => {
            let b = st.regs[&n(2)].clone();
            let r = st.regs.get_mut(&n(1)).unwrap();
            let res = match (&mut *r, &b) {
                (Reg::V(x), Reg::V(y)) => x.merge(y),
                (Reg::T(x), Reg::T(y)) => x.merge(y),
                _ => return "bad-op".into(),
            };
            match res {
                Ok(()) => obs(r),
                Err(e) => err(e),
            }
        }
        // ds R1 R2 s : R1 := R2.clone().downsample_scaled(s)
        "ds" | "dsm" => {
            let src = st.regs[&n(2)].clone();
            let res = match (ws[0], src) {
                ("ds", Reg::V(x)) => x.downsample_scaled(n(3)).map(Reg::V),
                ("ds", Reg::T(x)) => x.downsample_scaled(n(3)).map(Reg::T),
                ("dsm", Reg::V(x)) => x.downsample_max_hash(n(3)).map(Reg::V),
                ("dsm", Reg::T(x)) => x.downsample_max_hash(n(3)).map(Reg::T),
                _ => return "bad-op".into(),
            };
            match res {
                Ok(r) => {
                    let s = obs(&r);
                    st.regs.insert(n(1), r);
                    s
                }
                Err(e) => err(e),
            }
        }
        "isect" => {
            let res = match (&st.regs[&n(1)], &st.regs[&n(2)]) {
                (Reg::V(x), Reg::V(y)) => x.intersection(y),
                (Reg::T(x), Reg::T(y)) => x.intersection(y),
                _ => return "bad-op".into(),
            };
            match res {
                Ok((c, u)) => format!("common={} union={}", show_nats(c), u),
                Err(e) => err(e),
            }
        }
        // cc R1 R2 d
        "cc" => {
            let d = ws[3] == "1";
            let res = match (&st.regs[&n(1)], &st.regs[&n(2)]) {
                (Reg::V(x), Reg::V(y)) => x.count_common(y, d),
                (Reg::T(x), Reg::T(y)) => x.count_common(y, d),
                _ => return "bad-op".into(),
            };
            match res {
                Ok(c) => format!("common={}", c),
                Err(e) => err(e),
            }
        }
        // sim R1 R2 ignore_abundance downsample
        "sim" => {
            let (ig, d) = (ws[3] == "1", ws[4] == "1");
            let res = match (&st.regs[&n(1)], &st.regs[&n(2)]) {
                (Reg::V(x), Reg::V(y)) => x.similarity(y, ig, d),
                (Reg::T(x), Reg::T(y)) => x.similarity(y, ig, d),
                _ => return "bad-op".into(),
            };
            match res {
                Ok(f) => bits(f),
                Err(e) => err(e),
            }
        }
        // the explicit route: downsample both to the larger scaled, then compare without downsampling
        "ccx" | "simx" | "iszx" => {
            let (a, b) = (&st.regs[&n(1)], &st.regs[&n(2)]);
            let m = scaled_of(a).max(scaled_of(b));
            let (a2, b2) = match (ds(a, m), ds(b, m)) {
                (Ok(a2), Ok(b2)) => (a2, b2),
                (Err(e), _) | (_, Err(e)) => return err(e),
            };
            match ws[0] {
                "ccx" => {
                    let res = match (&a2, &b2) {
                        (Reg::V(x), Reg::V(y)) => x.count_common(y, false),
                        (Reg::T(x), Reg::T(y)) => x.count_common(y, false),
                        _ => return "bad-op".into(),
                    };
                    match res {
                        Ok(c) => format!("common={}", c),
                        Err(e) => err(e),
                    }
                }
                "iszx" => {
                    let res = match (&a2, &b2) {
                        (Reg::V(x), Reg::V(y)) => x.intersection_size(y),
                        (Reg::T(x), Reg::T(y)) => x.intersection_size(y),
                        _ => return "bad-op".into(),
                    };
                    match res {
                        Ok((c, u)) => format!("common={} union={}", c, u),
                        Err(e) => err(e),
                    }
                }
                _ => {
                    let ig = ws[3] == "1";
                    let res = match (&a2, &b2) {
                        (Reg::V(x), Reg::V(y)) => x.similarity(y, ig, false),
                        (Reg::T(x), Reg::T(y)) => x.similarity(y, ig, false),
                        _ => return "bad-op".into(),
                    };
                    match res {
                        Ok(f) => bits(f),
                        Err(e) => err(e),
                    }
                }
            }
        }
        // gstats Q M : calculate_gather_stats with query Q (never downsampled) and match M (downsampled
        // on the fly); gstatsx: the match is downsampled explicitly first
        "gstats" | "gstatsx" => {
            let (q, m) = match (&st.regs[&n(1)], &st.regs[&n(2)]) {
                (Reg::V(q), Reg::V(m)) => (q.clone(), m.clone()),
                _ => return "bad-op".into(),
            };
            let m = if ws[0] == "gstatsx" {
                match m.downsample_scaled(q.scaled()) {
                    Ok(m) => m,
                    Err(e) => return err(e),
                }
            } else {
                m
            };
            let mut sig = Signature::default();
            sig.set_name("m");
            sig.push(Sketch::MinHash(m));
            let store = SigStore::from(sig);
            match calculate_gather_stats(&q, q.clone(), store, 1, 0, 0, 1, false, false, None) {
                Ok((g, _)) => format!(
                    "isect_bp={} rem_bp={} uniq_bp={} fo={} fm={} fmo={} fu={}",
                    g.intersect_bp(),
                    g.remaining_bp(),
                    g.unique_intersect_bp(),
                    fbits(g.f_orig_query()),
                    fbits(g.f_match()),
                    fbits(g.f_match_orig()),
                    fbits(g.f_unique_to_query())
                ),
                Err(e) => err(e),
            }
        }
        // sel s R... : a signature holding the listed sketches, selected at scaled s;
        // selx: the same sketches filtered by the retain test and downsampled explicitly
        "sel" | "selx" => {
            let mut sig = Signature::default();
            for w in &ws[2..] {
                let r: u64 = w.parse().unwrap();
                sig.push(match st.regs[&r].clone() {
                    Reg::V(x) => Sketch::MinHash(x),
                    Reg::T(x) => Sketch::LargeMinHash(x),
                });
            }
            if ws[0] == "selx" {
                return match select_explicit(sig.sketches().as_slice(), n(1)) {
                    Ok(v) => show_sketches(&v, false),
                    Err(e) => err(e),
                };
            }
            let mut sel = Selection::default();
            sel.set_scaled(n(1) as u32);
            match sig.select(&sel) {
                Ok(sig) => show_sketches(&sig.sketches(), false),
                Err(e) => err(e),
            }
        }
        // rm R h,h,.. : remove_many
        "rm" => {
            let hs = parse_nats(ws[2]);
            let r = st.regs.get_mut(&n(1)).unwrap();
            match r {
                Reg::V(x) => x.remove_many(hs).unwrap(),
                Reg::T(x) => x.remove_many(hs).unwrap(),
            }
            obs(r)
        }
        "clear" => {
            let r = st.regs.get_mut(&n(1)).unwrap();
            match r {
                Reg::V(x) => x.clear(),
                Reg::T(x) => x.clear(),
            }
            obs(r)
        }
        // md5 R : md5sum() is computed (and from now on cached in R); it must be the md5sum of a
        // fresh sketch holding the same hashes
        "md5" => {
            let r = &st.regs[&n(1)];
            let (got, want) = match r {
                Reg::V(x) => {
                    let mut f = KmerMinHash::new(1, x.ksize() as u32, x.hash_function(), x.seed(), false, 0);
                    f.add_many(&x.mins()).unwrap();
                    (x.md5sum(), f.md5sum())
                }
                Reg::T(x) => {
                    let mut f = KmerMinHashBTree::new(1, x.ksize() as u32, x.hash_function(), x.seed(), false, 0);
                    f.add_many(&x.mins()).unwrap();
                    (x.md5sum(), f.md5sum())
                }
            };
            if got == want {
                "md5ok".into()
            } else {
                format!("md5stale {} {}", got, want)
            }
        }
        // fpnew <mols> <ksizes> <scaled> <num|d> <track> R... : Signature::from_params of
        // ComputeParameters (num_hashes left at its default when `d`); its sketches are also copied
        // into the registers R... (template order) so that every other op can be driven on them
        "fpnew" => {
            let mut p = ComputeParameters::builder().build();
            let mols: Vec<&str> = ws[1].split(',').collect();
            p.set_dna(mols.contains(&"dna"));
            p.set_protein(mols.contains(&"protein"));
            p.set_dayhoff(mols.contains(&"dayhoff"));
            p.set_hp(mols.contains(&"hp"));
            p.set_ksizes(parse_nats(ws[2]).into_iter().map(|k| k as u32).collect());
            p.set_scaled(n(3));
            if ws[4] != "d" {
                p.set_num_hashes(n(4) as u32);
            }
            p.set_track_abundance(ws[5] == "1");
            let sig = Signature::from_params(&p);
            let sk = sig.sketches();
            if sk.len() != ws.len() - 6 {
                return format!("n={}", sk.len());
            }
            for (s, w) in sk.iter().zip(&ws[6..]) {
                match reg_of(s) {
                    Some(r) => st.regs.insert(w.parse().unwrap(), r),
                    None => return "bad-sketch".into(),
                };
            }
            let out = show_sketches(&sk, true);
            st.sig = Some(sig);
            out
        }
        // fpadd SEQ : Signature::add_sequence(SEQ, force = false)
        "fpadd" => match st.sig.as_mut() {
            Some(sig) => match sig.add_sequence(ws[1].as_bytes(), false) {
                Ok(()) => show_sketches(&sig.sketches(), false),
                Err(e) => err(e),
            },
            None => "bad-reg".into(),
        },
        // fpsel s : the from_params signature selected at scaled s; fpselx s: retain test + explicit
        // downsample_scaled of each of its sketches
        "fpsel" | "fpselx" => match st.sig.as_ref() {
            Some(sig) => {
                if ws[0] == "fpselx" {
                    return match select_explicit(sig.sketches().as_slice(), n(1)) {
                        Ok(v) => show_sketches(&v, true),
                        Err(e) => err(e),
                    };
                }
                let mut sel = Selection::default();
                sel.set_scaled(n(1) as u32);
                match sig.clone().select(&sel) {
                    Ok(sig) => show_sketches(&sig.sketches(), true),
                    Err(e) => err(e),
                }
            }
            None => "bad-reg".into(),
        },
        // fpget R i : R := sketch i of the from_params signature (as fed by fpadd)
        "fpget" => match st.sig.as_ref().and_then(|s| s.sketches().get(n(2) as usize).and_then(reg_of)) {
            Some(r) => {
                let o = obs(&r);
                st.regs.insert(n(1), r);
                o
            }
            None => "bad-reg".into(),
        },
        _ => "bad-op".into(),
    }
}

// ------------------------------------------------------------------------------------ generator

const SCALEDS: [u64; 10] = [1, 2, 3, 7, 93, 100, 1000, 2000, 10_000, 1 << 31];

fn show_items(v: &[(u64, u64)]) -> String {
    if v.is_empty() {
        "-".into()
    } else {
        v.iter().map(|(h, a)| format!("{}:{}", h, a)).collect::<Vec<_>>().join(",")
    }
}

/// hashes concentrated around the ceilings of the given scaled values
fn universe(r: &mut Rng, ss: &[u64]) -> Vec<u64> {
    let mut u: Vec<u64> = vec![];
    let n = r.range(5, 16);
    for _ in 0..n {
        let s = *r.pick(ss);
        let mh = max_hash_for_scaled(s);
        let v = match r.below(8) {
            0 => r.below(10),
            1 => r.bits(64),
            2 | 3 => mh.saturating_sub(r.below(3)),
            4 | 5 => mh.saturating_add(r.range(1, 2)),
            6 => mh / 2 + r.below(3),
            _ => r.below(mh.max(1)),
        };
        if !u.contains(&v) {
            u.push(v);
        }
    }
    u
}

fn items(r: &mut Rng, u: &[u64], p_num: u64, p_den: u64) -> Vec<(u64, u64)> {
    let mut v: Vec<(u64, u64)> = vec![];
    for &k in u {
        if r.chance(p_num, p_den) {
            let reps = if r.chance(1, 4) { 2 } else { 1 };
            for _ in 0..reps {
                v.push((k, r.range(1, 6)));
            }
        }
    }
    for i in (1..v.len()).rev() {
        let j = r.below(i as u64 + 1) as usize;
        v.swap(i, j);
    }
    v
}

fn new_line(reg: u64, scaled: u64, num: u64, track: bool) -> String {
    format!("new {} {} {} 21 dna 42 {}", reg, scaled, num, track as u8)
}

/// the `num` a sketch gets next to its `scaled`: none (the sketches the theorems are about), larger
/// than anything it will hold (nothing is ever evicted), or small (the bottom-`num` bound cuts)
fn pick_num(r: &mut Rng, usize_: usize) -> u64 {
    match r.below(16) {
        0..=9 => 0,
        10..=12 => 1000,
        13 => usize_ as u64 + 1,
        _ => r.range(1, (usize_ as u64).max(2)),
    }
}

fn keys_of(v: &[(u64, u64)]) -> Vec<u64> {
    let mut k: Vec<u64> = v.iter().map(|p| p.0).collect();
    k.sort();
    k.dedup();
    k
}

/// fill register `reg` (already created with `new_line(reg, s, num, track)`) with the data `it`,
/// optionally after / through a life: junk added and removed, clear, md5 cached, part of the data
/// merged in from another sketch, part of it removed and added again
fn fill(o: &mut Out, r: &mut Rng, reg: u64, tmp: u64, s: u64, num: u64, track: bool, it: &[(u64, u64)], u: &[u64]) {
    match r.below(8) {
        0 | 1 => o.op(&format!("add {} {}", reg, show_items(it))),
        2 => {
            let junk = items(r, u, 1, 2);
            let mut ks = keys_of(&junk);
            ks.push(r.bits(64)); // a hash that is (almost surely) not there
            o.op(&format!("add {} {}", reg, show_items(&junk)));
            o.op(&format!("md5 {}", reg));
            let ks = dup_shuffle(r, &ks);
            o.op(&format!("rm {} {}", reg, show_nats(ks)));
            o.op(&format!("add {} {}", reg, show_items(it)));
        }
        3 => {
            let junk = items(r, u, 1, 2);
            o.op(&format!("add {} {}", reg, show_items(&junk)));
            if r.chance(1, 2) {
                o.op(&format!("md5 {}", reg));
            }
            o.op(&format!("clear {}", reg));
            o.op(&format!("add {} {}", reg, show_items(it)));
        }
        4 => {
            let cut = r.below(it.len() as u64 + 1) as usize;
            o.op(&format!("add {} {}", reg, show_items(&it[..cut])));
            o.op(&new_line(tmp, s, num, track));
            o.op(&format!("add {} {}", tmp, show_items(&it[cut..])));
            o.op(&format!("md5 {}", reg));
            o.op(&format!("merge {} {}", reg, tmp));
        }
        5 => {
            o.op(&format!("add {} {}", reg, show_items(it)));
            o.op(&format!("md5 {}", reg));
            let ks: Vec<u64> = keys_of(it).into_iter().filter(|_| r.chance(1, 3)).collect();
            o.op(&format!("rm {} {}", reg, show_nats(dup_shuffle(r, &ks))));
            let again: Vec<(u64, u64)> = it.iter().filter(|p| ks.contains(&p.0)).cloned().collect();
            o.op(&format!("add {} {}", reg, show_items(&again)));
        }
        _ => {
            o.op(&format!("add {} {}", reg, show_items(it)));
            o.op(&format!("md5 {}", reg));
        }
    }
}


/// a removal / insertion list as callers hand them over: not sorted, some entries repeated
fn dup_shuffle(r: &mut Rng, ks: &[u64]) -> Vec<u64> {
    let mut v: Vec<u64> = ks.to_vec();
    for &k in ks {
        if r.chance(1, 3) {
            v.push(k);
        }
    }
    for i in (1..v.len()).rev() {
        let j = r.below(i as u64 + 1) as usize;
        v.swap(i, j);
    }
    v
}

/// what a sketch with ceiling `mh` and bound `num` holds after the insertions `it`; `None` when the
/// bound would cut (a vector-type sketch with both bounds is then order dependent)
fn content(it: &[(u64, u64)], mh: u64, num: u64) -> Option<Vec<(u64, u64)>> {
    let mut m: BTreeMap<u64, u64> = BTreeMap::new();
    for (h, a) in it {
        if mh == 0 || *h <= mh {
            *m.entry(*h).or_insert(0) += a;
        }
    }
    if num != 0 && m.len() as u64 > num {
        return None;
    }
    Some(m.into_iter().collect())
}

/// register `reg` := a sketch with parameters (s, num, track) standing for the insertions `it`: made
/// by `new` + a life (`fill`), or handed over ready-made to a public constructor (builder with and
/// without the tree's `current_max`, JSON document with the hashes in any order); afterwards sometimes
/// sent through `Clone`, the `From` conversions or a serde round trip
fn make(o: &mut Out, r: &mut Rng, tree: bool, reg: u64, tmp: u64, s: u64, num: u64, track: bool, it: &[(u64, u64)], u: &[u64]) {
    let mh = max_hash_for_scaled(s);
    let ready = if r.chance(1, 3) { content(it, mh, num) } else { None };
    match ready {
        Some(mut c) => {
            // an explicitly given `current_max` is taken as it is: for a sketch with a ceiling the code
            // never reads it, so a stale one (0, a hash in the middle, anything small) must not matter
            let mut stale: Option<u64> = None;
            let ctor = match r.below(5) {
                0 if num == 0 || mh == 0 => "js",
                1 => "bc",
                2 | 3 if tree && mh != 0 && !c.is_empty() => {
                    stale = Some(match r.below(3) {
                        0 => 0,
                        1 => c[r.below(c.len() as u64) as usize].0 / 2,
                        _ => c[0].0,
                    });
                    "bc"
                }
                _ => "b",
            };
            if ctor == "js" {
                for i in (1..c.len()).rev() {
                    let j = r.below(i as u64 + 1) as usize;
                    c.swap(i, j);
                }
            }
            o.op(&format!(
                "build {} {} {} {} 21 dna 42 {} {}{}",
                reg, ctor, mh, num, track as u8, show_items(&c),
                match stale {
                    Some(x) => format!(" {}", x),
                    None => String::new(),
                }
            ));
        }
        None => {
            o.op(&new_line(reg, s, num, track));
            fill(o, r, reg, tmp, s, num, track, it, u);
        }
    }
    if r.chance(1, 4) {
        let how = match r.below(4) {
            0 => "clone",
            1 => "rt",
            2 => "rtr",
            _ if num == 0 || mh == 0 => "serde",
            _ => "clone",
        };
        o.op(&format!("conv {} {} {}", reg, reg, how));
    }
}

fn dna(r: &mut Rng, len: u64) -> String {
    (0..len).map(|_| b"ACGT"[r.below(4) as usize] as char).collect()
}

/// every k-mer hash of `seq` in the order `add_sequence` produces them (hash 0 is skipped there)
fn seq_hashes(seq: &str, ksize: u64, m: &str) -> Vec<u64> {
    sourmash::signature::SeqToHashes::new(seq.as_bytes(), ksize as usize, false, false, mol(m), 42)
        .map(|h| h.unwrap())
        .filter(|&h| h != 0)
        .collect()
}

/// signatures built by the real glue: ComputeParameters -> Signature::from_params -> add_sequence,
/// then select at coarser (and equal, and finer) scaled values
fn gen_fp(o: &mut Out, r: &mut Rng) {
    const MOLS: [&[&str]; 7] = [
        &["dna"], &["dna"], &["protein"], &["dayhoff"], &["hp"], &["protein", "dna"],
        &["protein", "dayhoff", "hp", "dna"],
    ];
    let mols = *r.pick(&MOLS);
    let mut ks: Vec<u64> = vec![];
    let nk = if mols.len() > 2 { 1 } else { r.range(1, 3) };
    while (ks.len() as u64) < nk {
        let k = *r.pick(&[15u64, 21, 27, 30, 33]);
        if !ks.contains(&k) {
            ks.push(k);
        }
    }
    let s = *r.pick(&[1u64, 1, 2, 2, 3, 4, 7, 8]);
    let num = match r.below(8) {
        0..=2 => "d".to_string(),
        3 | 4 => "0".to_string(),
        5 => "5000".to_string(),
        _ => r.range(3, 60).to_string(),
    };
    let track = r.chance(1, 2);
    // template order of build_template: per ksize protein, dayhoff, hp, dna
    let mut tmpl: Vec<(u64, &str)> = vec![];
    for &k in &ks {
        for m in ["protein", "dayhoff", "hp", "dna"] {
            if mols.contains(&m) {
                tmpl.push((k, m));
            }
        }
    }
    let regs: Vec<String> = (0..tmpl.len()).map(|i| i.to_string()).collect();
    o.case(&format!("tree fp {} {}", s, num));
    o.op(&format!(
        "fpnew {} {} {} {} {} {}",
        mols.join(","),
        show_nats(ks.clone()),
        s,
        num,
        track as u8,
        regs.join(" ")
    ));
    let l0 = r.range(40, 240);
    let seq = dna(r, l0);
    let mut seqs = vec![seq.clone()];
    if r.chance(1, 2) {
        // a second piece: a prefix of the first (abundances > 1) or fresh data
        if r.chance(1, 2) {
            let cut = r.range(34, seq.len() as u64) as usize;
            seqs.push(seq[..cut].to_string());
        } else {
            let l = r.range(40, 160);
            seqs.push(dna(r, l));
        }
    }
    for q in &seqs {
        for (i, (k, m)) in tmpl.iter().enumerate() {
            o.op(&format!("add {} {}", i, show_nats(seq_hashes(q, *k, m))));
        }
        o.op(&format!("fpadd {}", q));
    }
    let mut targets = vec![s, s + 1, 2 * s, 2 * s + 1, 5 * s, 16, 64, 1000];
    targets.retain(|&t| t >= s);
    for _ in 0..3 {
        let t = *r.pick(&targets);
        o.op(&format!("fpsel {}", t));
        o.op(&format!("fpselx {}", t));
        o.op(&format!("sel {} {}", t, regs.join(" ")));
        // one delivered sketch through the plain entry points
        let i = r.below(tmpl.len() as u64);
        o.op(&format!("fpget 30 {}", i));
        o.op(&format!("ds 31 30 {}", t));
        o.op("md5 31");
        o.op("cc 30 31 1");
        o.op("ccx 31 30");
        o.op("sim 31 30 1 1");
        o.op("obs 30");
    }
    if s > 1 {
        // a finer request: nothing is delivered
        o.op(&format!("fpsel {}", s - 1));
        o.op(&format!("fpselx {}", s - 1));
    }
    o.op(&format!("fpsel {}", s));
}

fn gen(a: &Args) {
    let mut r = Rng::new(a.seed);
    let mut o = Out::new();
    let rounds = if a.cases > 0 {
        a.cases
    } else if a.tier == "thorough" {
        400
    } else {
        50
    };
    let mut ci = 0u64;
    for round in 0..rounds {
        for _ in 0..3 {
            gen_fp(&mut o, &mut r);
        }
        // every ordered pair (s, s') of the scaled table, both container types
        for &s in &SCALEDS {
            for &s2 in &SCALEDS {
                ci += 1;
                let ty = if (ci + round) % 2 == 0 { "vec" } else { "tree" };
                let s3 = *r.pick(&SCALEDS);
                let u = universe(&mut r, &[s, s2, s3]);
                let (ta, tb) = (r.chance(3, 4), r.chance(3, 4));
                // num next to scaled (check_compatible does not look at num: any mix is comparable)
                let na = pick_num(&mut r, u.len());
                let nb = pick_num(&mut r, u.len());
                o.case(&format!("{} pair {} {} num {} {}", ty, s, s2, na, nb));
                let ia = items(&mut r, &u, 3, 4);
                let ib = items(&mut r, &u, 3, 4);
                make(&mut o, &mut r, ty == "tree", 0, 20, s, na, ta, &ia, &u);
                make(&mut o, &mut r, ty == "tree", 1, 21, s2, nb, tb, &ib, &u);
                o.op("scaled 0");
                o.op("obs 0");
                // downsample of a to s2 (refused when s2 < s), idempotence, composition through s3
                o.op(&format!("ds 2 0 {}", s2));
                o.op("obs 2");
                o.op("md5 2");
                o.op(&format!("ds 3 2 {}", s2));
                let (lo, hi) = (s2.min(s3), s2.max(s3));
                o.op(&format!("ds 4 0 {}", lo));
                o.op(&format!("ds 5 4 {}", hi));
                o.op(&format!("ds 6 0 {}", hi));
                // sketching the same data directly at s2
                o.op(&new_line(7, s2, na, ta));
                o.op(&format!("add 7 {}", show_items(&ia)));
                // downsample_max_hash with the ceiling of s2
                o.op(&format!("dsm 8 0 {}", max_hash_for_scaled(s2)));
                // the same downsampling done by pouring: an empty sketch at s2 takes the hashes of a
                // through an entry point that checks nothing - every hash must still pass the
                // receiver's own ceiling (coarser, equal and finer receivers all occur: s2 vs s)
                let hows: &[&str] = if ty == "vec" { &["native", "capi", "capi", "many", "abund"] } else { &["native", "native", "many", "abund"] };
                o.op(&format!("pour 22 0 {} {}", s2, r.pick(hows)));
                o.op("md5 22");
                o.op("cc 22 2 0");
                o.op("sim 22 7 1 0");
                o.op(&format!("pour 23 0 {} {}", s2.max(s3), r.pick(hows)));
                o.op(&format!("pour 23 1 {} {}", s, r.pick(hows)));
                o.op("cc 0 23 0");
                o.op("sim 23 0 1 0");
                // every comparison entry point with downsample = true, both argument orders
                for op in [
                    "cc 0 1 1", "cc 1 0 1", "ccx 0 1", "ccx 1 0", "iszx 0 1", "iszx 1 0",
                    "sim 0 1 1 1", "sim 1 0 1 1", "simx 0 1 1", "simx 1 0 1",
                    "sim 0 1 0 1", "sim 1 0 0 1", "simx 0 1 0", "simx 1 0 0",
                    "cc 0 1 0", "sim 0 1 1 0",
                ] {
                    o.op(op);
                }
                // gather statistics: the match is downsampled to the query, never the other way round
                if ty == "vec" {
                    for op in ["gstats 0 1", "gstatsx 0 1", "gstats 1 0", "gstatsx 1 0"] {
                        o.op(op);
                    }
                }
                // operands are never modified (nor is a cached md5 invalid afterwards)
                o.op("obs 0");
                o.op("obs 1");
                o.op("md5 0");
                // downsample commutes with merge and intersection (at the larger scaled)
                let m = s.max(s2);
                o.op(&new_line(9, s, nb, tb));
                o.op(&format!("add 9 {}", show_items(&ib)));
                o.op("copy 10 0");
                o.op("merge 10 9");
                o.op(&format!("ds 11 10 {}", m)); // ds (a ∪ b)
                o.op(&format!("ds 12 0 {}", m));
                o.op(&format!("ds 13 9 {}", m));
                o.op("merge 12 13"); // ds a ∪ ds b
                o.op("md5 12");
                o.op("isect 12 13");
                o.op("isect 0 9");
                // pouring a, then b, into an empty sketch at m = downsample of the merge (hashes)
                o.op(&format!("pour 24 0 {} {}", m, r.pick(hows)));
                o.op(if ty == "vec" && r.chance(1, 2) { "caddfrom 24 9" } else { "addfrom 24 9" });
                o.op("md5 24");
                o.op("cc 24 11 0");
                // a NON-empty receiver at another scaled (coarser, equal, finer), both directions;
                // removal lists and insertion lists unsorted and with repeats
                o.op("copy 25 1");
                o.op(if ty == "vec" && r.chance(1, 2) { "caddfrom 25 0" } else { "addfrom 25 0" });
                o.op("md5 25");
                o.op("copy 26 0");
                o.op("addfrom 26 1");
                o.op("rmfrom 26 1");
                o.op(&format!("addm 26 {}", show_nats(dup_shuffle(&mut r, &keys_of(&ib)))));
                o.op(&format!("rm 26 {}", show_nats(dup_shuffle(&mut r, &keys_of(&ia)))));
                o.op("md5 26");
                // Signature::select at s2 (and with a second sketch at another scaled, and a num
                // sketch), next to the explicit route
                o.op(&format!("sel {} 0", s2));
                o.op(&format!("selx {} 0", s2));
                let mut c14 = content(&ia, 0, 0).unwrap();
                c14.truncate(5);
                if r.chance(1, 2) {
                    o.op(&format!("build 14 {} 0 5 21 dna 42 {} {}", *r.pick(&["js", "bc", "b"]), ta as u8, show_items(&c14)));
                } else {
                    o.op(&new_line(14, 0, 5, ta));
                    o.op(&format!("add 14 {}", show_items(&ia)));
                }
                o.op(&format!("sel {} 0 1 14", s2.max(s3)));
                o.op(&format!("selx {} 0 1 14", s2.max(s3)));
                o.op(&format!("sel {} 14", s2));
                // num sketches pass through downsampling unchanged
                o.op(&format!("ds 15 14 {}", s2));
                o.op(&format!("dsm 15 14 {}", max_hash_for_scaled(s2)));
                o.op("cc 14 14 1");
                o.op("cc 0 14 1");
                o.op("obs 14");
                // num receiver / scaled source and the other way round
                o.op("copy 27 14");
                o.op("addfrom 27 1");
                o.op("copy 28 1");
                o.op("addfrom 28 14");
                o.op("md5 28");
                if r.chance(1, 8) {
                    o.op("newdef 29");
                    o.op("addfrom 29 0");
                    o.op(&format!("ds 29 29 {}", s2));
                }
            }
        }
    }
}

fn main() {
    let a = args();
    match a.mode.as_str() {
        "gen" => gen(&a),
        "exec" => exec_loop(
            || St {
                tree: false,
                regs: BTreeMap::new(),
                sig: None,
            },
            step,
        ),
        _ => panic!("mode"),
    }
}
