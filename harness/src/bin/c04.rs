//! C04: downsampling commutes with sketching and with every comparison.
//!
//! Registers hold real `KmerMinHash` / `KmerMinHashBTree` values; see lean/Driver/C04.lean for the
//! model/spec side of every op.
use sourmash::encodings::HashFunctions;
use sourmash::prelude::*;
use sourmash::selection::Selection;
use sourmash::index::calculate_gather_stats;
use sourmash::signature::Signature;
use sourmash::storage::SigStore;
use sourmash::sketch::minhash::{max_hash_for_scaled, KmerMinHash, KmerMinHashBTree};
use sourmash::sketch::Sketch;
use std::collections::BTreeMap;
use verif_harness::*;

#[derive(Clone)]
enum Reg {
    V(KmerMinHash),
    T(KmerMinHashBTree),
}

fn mol(s: &str) -> HashFunctions {
    match s {
        "protein" => HashFunctions::Murmur64Protein,
        "dayhoff" => HashFunctions::Murmur64Dayhoff,
        "hp" => HashFunctions::Murmur64Hp,
        _ => HashFunctions::Murmur64Dna,
    }
}

fn obs(r: &Reg) -> String {
    let (mh, m, a) = match r {
        Reg::V(x) => (x.max_hash(), x.mins(), x.abunds()),
        Reg::T(x) => (x.max_hash(), x.mins(), x.abunds()),
    };
    format!(
        "mh={} mins={} abunds={}",
        mh,
        show_nats(m),
        match a {
            Some(a) => show_nats(a),
            None => "none".into(),
        }
    )
}

fn parse_pairs(s: &str) -> Vec<(u64, u64)> {
    if s == "-" || s.is_empty() {
        return vec![];
    }
    s.split(',')
        .map(|w| {
            let mut it = w.split(':');
            let h = it.next().unwrap().parse().unwrap();
            let a = it.next().map(|x| x.parse().unwrap()).unwrap_or(1);
            (h, a)
        })
        .collect()
}

struct St {
    tree: bool,
    regs: BTreeMap<u64, Reg>,
}

fn err<E: std::fmt::Debug>(e: E) -> String {
    let s = format!("{:?}", e);
    let name: String = s.chars().take_while(|c| c.is_alphanumeric()).collect();
    format!("err {}", name)
}

fn bits(x: f64) -> String {
    format!("{:016x}", x.to_bits())
}

fn fbits(x: f64) -> String {
    if x.is_nan() {
        "nan".into()
    } else {
        bits(x)
    }
}

fn scaled_of(r: &Reg) -> u64 {
    match r {
        Reg::V(x) => x.scaled(),
        Reg::T(x) => x.scaled(),
    }
}

fn ds(r: &Reg, s: u64) -> Result<Reg, sourmash::Error> {
    Ok(match r {
        Reg::V(x) => Reg::V(x.clone().downsample_scaled(s)?),
        Reg::T(x) => Reg::T(x.clone().downsample_scaled(s)?),
    })
}

fn step(st: &mut St, ws: &[&str]) -> String {
    let n = |i: usize| -> u64 { ws[i].parse().unwrap() };
    // operand registers must exist (a refused downsample leaves its target register unset)
    let srcs: &[usize] = match ws[0] {
        "obs" | "scaled" | "add" | "set" => &[1],
        "copy" | "ds" | "dsm" => &[2],
        "merge" | "isect" | "cc" | "sim" | "ccx" | "simx" | "iszx" | "gstats" | "gstatsx" => &[1, 2],
        _ => &[],
    };
    if srcs.iter().any(|&i| !st.regs.contains_key(&n(i))) {
        return "bad-reg".into();
    }
    if ws[0] == "sel" && ws[2..].iter().any(|w| !st.regs.contains_key(&w.parse().unwrap())) {
        return "bad-reg".into();
    }
    match ws[0] {
        "case" => {
            st.tree = ws.get(2) == Some(&"tree");
            st.regs.clear();
            "ok".into()
        }
        "new" => {
            let (scaled, num, ksize, seed, track) = (n(2), n(3) as u32, n(4) as u32, n(6), ws[7] == "1");
            let r = if st.tree {
                Reg::T(KmerMinHashBTree::new(scaled, ksize, mol(ws[5]), seed, track, num))
            } else {
                Reg::V(KmerMinHash::new(scaled, ksize, mol(ws[5]), seed, track, num))
            };
            st.regs.insert(n(1), r);
            "ok".into()
        }
        "copy" => {
            let b = st.regs[&n(2)].clone();
            st.regs.insert(n(1), b);
            "ok".into()
        }
        "obs" => obs(&st.regs[&n(1)]),
        "scaled" => format!("scaled={}", scaled_of(&st.regs[&n(1)])),
        "add" => {
            let ps = parse_pairs(ws[2]);
            let r = st.regs.get_mut(&n(1)).unwrap();
            match r {
                Reg::V(x) => x.add_many_with_abund(&ps).unwrap(),
                Reg::T(x) => x.add_many_with_abund(&ps).unwrap(),
            }
            obs(r)
        }
        // set R h a : KmerMinHash::set_hash_with_abundance (vector type only)
        "set" => {
            let r = st.regs.get_mut(&n(1)).unwrap();
            match r {
                Reg::V(x) => x.set_hash_with_abundance(n(2), n(3)),
                Reg::T(_) => return "bad-op".into(),
            }
            obs(r)
        }
        "merge" => {
            let b = st.regs[&n(2)].clone();
            let r = st.regs.get_mut(&n(1)).unwrap();
            let res = match (&mut *r, &b) {
                (Reg::V(x), Reg::V(y)) => x.merge(y),
                (Reg::T(x), Reg::T(y)) => x.merge(y),
                _ => return "bad-op".into(),
            };
            match res {
                Ok(()) => obs(r),
                Err(e) => err(e),
            }
        }
        // ds R1 R2 s : R1 := R2.clone().downsample_scaled(s)
        "ds" | "dsm" => {
            let src = st.regs[&n(2)].clone();
            let res = match (ws[0], src) {
                ("ds", Reg::V(x)) => x.downsample_scaled(n(3)).map(Reg::V),
                ("ds", Reg::T(x)) => x.downsample_scaled(n(3)).map(Reg::T),
                ("dsm", Reg::V(x)) => x.downsample_max_hash(n(3)).map(Reg::V),
                ("dsm", Reg::T(x)) => x.downsample_max_hash(n(3)).map(Reg::T),
                _ => return "bad-op".into(),
            };
            match res {
                Ok(r) => {
                    let s = obs(&r);
                    st.regs.insert(n(1), r);
                    s
                }
                Err(e) => err(e),
            }
        }
        "isect" => {
            let res = match (&st.regs[&n(1)], &st.regs[&n(2)]) {
                (Reg::V(x), Reg::V(y)) => x.intersection(y),
                (Reg::T(x), Reg::T(y)) => x.intersection(y),
                _ => return "bad-op".into(),
            };
            match res {
                Ok((c, u)) => format!("common={} union={}", show_nats(c), u),
                Err(e) => err(e),
            }
        }
        // cc R1 R2 d
        "cc" => {
            let d = ws[3] == "1";
            let res = match (&st.regs[&n(1)], &st.regs[&n(2)]) {
                (Reg::V(x), Reg::V(y)) => x.count_common(y, d),
                (Reg::T(x), Reg::T(y)) => x.count_common(y, d),
                _ => return "bad-op".into(),
            };
            match res {
                Ok(c) => format!("common={}", c),
                Err(e) => err(e),
            }
        }
        // sim R1 R2 ignore_abundance downsample
        "sim" => {
            let (ig, d) = (ws[3] == "1", ws[4] == "1");
            let res = match (&st.regs[&n(1)], &st.regs[&n(2)]) {
                (Reg::V(x), Reg::V(y)) => x.similarity(y, ig, d),
                (Reg::T(x), Reg::T(y)) => x.similarity(y, ig, d),
                _ => return "bad-op".into(),
            };
            match res {
                Ok(f) => bits(f),
                Err(e) => err(e),
            }
        }
        // the explicit route: downsample both to the larger scaled, then compare without downsampling
        "ccx" | "simx" | "iszx" => {
            let (a, b) = (&st.regs[&n(1)], &st.regs[&n(2)]);
            let m = scaled_of(a).max(scaled_of(b));
            let (a2, b2) = match (ds(a, m), ds(b, m)) {
                (Ok(a2), Ok(b2)) => (a2, b2),
                (Err(e), _) | (_, Err(e)) => return err(e),
            };
            match ws[0] {
                "ccx" => {
                    let res = match (&a2, &b2) {
                        (Reg::V(x), Reg::V(y)) => x.count_common(y, false),
                        (Reg::T(x), Reg::T(y)) => x.count_common(y, false),
                        _ => return "bad-op".into(),
                    };
                    match res {
                        Ok(c) => format!("common={}", c),
                        Err(e) => err(e),
                    }
                }
                "iszx" => {
                    let res = match (&a2, &b2) {
                        (Reg::V(x), Reg::V(y)) => x.intersection_size(y),
                        (Reg::T(x), Reg::T(y)) => x.intersection_size(y),
                        _ => return "bad-op".into(),
                    };
                    match res {
                        Ok((c, u)) => format!("common={} union={}", c, u),
                        Err(e) => err(e),
                    }
                }
                _ => {
                    let ig = ws[3] == "1";
                    let res = match (&a2, &b2) {
                        (Reg::V(x), Reg::V(y)) => x.similarity(y, ig, false),
                        (Reg::T(x), Reg::T(y)) => x.similarity(y, ig, false),
                        _ => return "bad-op".into(),
                    };
                    match res {
                        Ok(f) => bits(f),
                        Err(e) => err(e),
                    }
                }
            }
        }
        // gstats Q M : calculate_gather_stats with query Q (never downsampled) and match M (downsampled
        // on the fly); gstatsx: the match is downsampled explicitly first
        "gstats" | "gstatsx" => {
            let (q, m) = match (&st.regs[&n(1)], &st.regs[&n(2)]) {
                (Reg::V(q), Reg::V(m)) => (q.clone(), m.clone()),
                _ => return "bad-op".into(),
            };
            let m = if ws[0] == "gstatsx" {
                match m.downsample_scaled(q.scaled()) {
                    Ok(m) => m,
                    Err(e) => return err(e),
                }
            } else {
                m
            };
            let mut sig = Signature::default();
            sig.set_name("m");
            sig.push(Sketch::MinHash(m));
            let store = SigStore::from(sig);
            match calculate_gather_stats(&q, q.clone(), store, 1, 0, 0, 1, false, false, None) {
                Ok((g, _)) => format!(
                    "isect_bp={} rem_bp={} uniq_bp={} fo={} fm={} fmo={} fu={}",
                    g.intersect_bp(),
                    g.remaining_bp(),
                    g.unique_intersect_bp(),
                    fbits(g.f_orig_query()),
                    fbits(g.f_match()),
                    fbits(g.f_match_orig()),
                    fbits(g.f_unique_to_query())
                ),
                Err(e) => err(e),
            }
        }
        // sel s R... : a signature holding the listed sketches, selected at scaled s
        "sel" => {
            let mut sig = Signature::default();
            for w in &ws[2..] {
                let r: u64 = w.parse().unwrap();
                sig.push(match st.regs[&r].clone() {
                    Reg::V(x) => Sketch::MinHash(x),
                    Reg::T(x) => Sketch::LargeMinHash(x),
                });
            }
            let mut sel = Selection::default();
            sel.set_scaled(n(1) as u32);
            match sig.select(&sel) {
                Ok(sig) => {
                    let sk = sig.sketches();
                    let mut out = format!("n={}", sk.len());
                    for s in sk {
                        let r = match s {
                            Sketch::MinHash(x) => Reg::V(x),
                            Sketch::LargeMinHash(x) => Reg::T(x),
                            _ => return "bad-sketch".into(),
                        };
                        out.push_str(" | ");
                        out.push_str(&obs(&r));
                    }
                    out
                }
                Err(e) => err(e),
            }
        }
        _ => "bad-op".into(),
    }
}

// ------------------------------------------------------------------------------------ generator

const SCALEDS: [u64; 10] = [1, 2, 3, 7, 93, 100, 1000, 2000, 10_000, 1 << 31];

fn show_items(v: &[(u64, u64)]) -> String {
    if v.is_empty() {
        "-".into()
    } else {
        v.iter().map(|(h, a)| format!("{}:{}", h, a)).collect::<Vec<_>>().join(",")
    }
}

/// hashes concentrated around the ceilings of the given scaled values
fn universe(r: &mut Rng, ss: &[u64]) -> Vec<u64> {
    let mut u: Vec<u64> = vec![];
    let n = r.range(5, 16);
    for _ in 0..n {
        let s = *r.pick(ss);
        let mh = max_hash_for_scaled(s);
        let v = match r.below(8) {
            0 => r.below(10),
            1 => r.bits(64),
            2 | 3 => mh.saturating_sub(r.below(3)),
            4 | 5 => mh.saturating_add(r.range(1, 2)),
            6 => mh / 2 + r.below(3),
            _ => r.below(mh.max(1)),
        };
        if !u.contains(&v) {
            u.push(v);
        }
    }
    u
}

fn items(r: &mut Rng, u: &[u64], p_num: u64, p_den: u64) -> Vec<(u64, u64)> {
    let mut v: Vec<(u64, u64)> = vec![];
    for &k in u {
        if r.chance(p_num, p_den) {
            let reps = if r.chance(1, 4) { 2 } else { 1 };
            for _ in 0..reps {
                v.push((k, r.range(1, 6)));
            }
        }
    }
    for i in (1..v.len()).rev() {
        let j = r.below(i as u64 + 1) as usize;
        v.swap(i, j);
    }
    v
}

fn new_line(reg: u64, scaled: u64, num: u64, track: bool) -> String {
    format!("new {} {} {} 21 dna 42 {}", reg, scaled, num, track as u8)
}

fn gen(a: &Args) {
    let mut r = Rng::new(a.seed);
    let mut o = Out::new();
    let rounds = if a.cases > 0 {
        a.cases
    } else if a.tier == "thorough" {
        400
    } else {
        20
    };
    let mut ci = 0u64;
    for round in 0..rounds {
        // every ordered pair (s, s') of the scaled table, both container types
        for &s in &SCALEDS {
            for &s2 in &SCALEDS {
                ci += 1;
                let ty = if (ci + round) % 2 == 0 { "vec" } else { "tree" };
                let s3 = *r.pick(&SCALEDS);
                let u = universe(&mut r, &[s, s2, s3]);
                let (ta, tb) = (r.chance(3, 4), r.chance(3, 4));
                o.case(&format!("{} pair {} {}", ty, s, s2));
                o.op(&new_line(0, s, 0, ta));
                o.op(&new_line(1, s2, 0, tb));
                let ia = items(&mut r, &u, 3, 4);
                let ib = items(&mut r, &u, 3, 4);
                o.op(&format!("add 0 {}", show_items(&ia)));
                o.op(&format!("add 1 {}", show_items(&ib)));
                o.op("scaled 0");
                // downsample of a to s2 (refused when s2 < s), idempotence, composition through s3
                o.op(&format!("ds 2 0 {}", s2));
                o.op("obs 2");
                o.op(&format!("ds 3 2 {}", s2));
                let (lo, hi) = (s2.min(s3), s2.max(s3));
                o.op(&format!("ds 4 0 {}", lo));
                o.op(&format!("ds 5 4 {}", hi));
                o.op(&format!("ds 6 0 {}", hi));
                // sketching the same data directly at s2
                o.op(&new_line(7, s2, 0, ta));
                o.op(&format!("add 7 {}", show_items(&ia)));
                // downsample_max_hash with the ceiling of s2
                o.op(&format!("dsm 8 0 {}", max_hash_for_scaled(s2)));
                // every comparison entry point with downsample = true, both argument orders
                for op in [
                    "cc 0 1 1", "cc 1 0 1", "ccx 0 1", "ccx 1 0", "iszx 0 1", "iszx 1 0",
                    "sim 0 1 1 1", "sim 1 0 1 1", "simx 0 1 1", "simx 1 0 1",
                    "sim 0 1 0 1", "sim 1 0 0 1", "simx 0 1 0", "simx 1 0 0",
                    "cc 0 1 0", "sim 0 1 1 0",
                ] {
                    o.op(op);
                }
                // gather statistics: the match is downsampled to the query, never the other way round
                if ty == "vec" {
                    for op in ["gstats 0 1", "gstatsx 0 1", "gstats 1 0", "gstatsx 1 0"] {
                        o.op(op);
                    }
                }
                // operands are never modified
                o.op("obs 0");
                o.op("obs 1");
                // downsample commutes with merge and intersection (at the larger scaled)
                let m = s.max(s2);
                o.op(&new_line(9, s, 0, tb));
                o.op(&format!("add 9 {}", show_items(&ib)));
                o.op("copy 10 0");
                o.op("merge 10 9");
                o.op(&format!("ds 11 10 {}", m)); // ds (a ∪ b)
                o.op(&format!("ds 12 0 {}", m));
                o.op(&format!("ds 13 9 {}", m));
                o.op("merge 12 13"); // ds a ∪ ds b
                o.op("isect 12 13");
                o.op("isect 0 9");
                // Signature::select at s2 (and with a second sketch at another scaled, and a num sketch)
                o.op(&format!("sel {} 0", s2));
                o.op(&new_line(14, 0, 5, ta));
                o.op(&format!("add 14 {}", show_items(&ia)));
                o.op(&format!("sel {} 0 1 14", s2.max(s3)));
                o.op(&format!("sel {} 14", s2));
                // num sketches pass through downsampling unchanged
                o.op(&format!("ds 15 14 {}", s2));
                o.op(&format!("dsm 15 14 {}", max_hash_for_scaled(s2)));
                o.op("cc 14 14 1");
                o.op("cc 0 14 1");
                o.op("obs 14");
            }
        }
    }
}

fn main() {
    let a = args();
    match a.mode.as_str() {
        "gen" => gen(&a),
        "exec" => exec_loop(
            || St {
                tree: false,
                regs: BTreeMap::new(),
            },
            step,
        ),
        _ => panic!("mode"),
    }
}
