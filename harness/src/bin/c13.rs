//! C13: a sketch's md5sum always reflects its current contents.
//!
//! Request lines
//!   case <n> <vec|tree> num=<n> scaled=<s> mh=<max_hash> track=<0|1> otrack=<0|1> k=<ksize>
//!   mutators (answer `mins=<list>` or `err <Variant>`):
//!     add <h> <a> | set <h> <a> | rm <h> | rmmany <h,..> | clear | merge | enable | disable | inflate
//!   observers:
//!     md5   -> hex digest through `md5sum()`
//!     cmd5  -> hex digest through the C API `kmerminhash_md5sum` (vector type only)
//!     clone -> the sketch is replaced by its `Clone`; answers the clone's md5sum
//!     copy  -> the *other* sketch becomes a `Clone` of this one; answers the copy's md5sum
//!     eq    -> `main == other` (`true` / `false`)
//!   every op except `eq` takes the prefix `o.` to act on the second sketch (binary ops then use the
//!   main sketch as their operand).
//! The generator calls an observer BEFORE most mutators — the order under which a forgotten cache
//! invalidation shows.
use sourmash::encodings::HashFunctions;
use sourmash::ffi::minhash::{kmerminhash_md5sum, SourmashKmerMinHash};
use sourmash::ffi::utils::ForeignObject;
use sourmash::sketch::minhash::{max_hash_for_scaled, KmerMinHash, KmerMinHashBTree};
use verif_harness::*;

#[derive(Clone)]
enum Sk {
    V(KmerMinHash),
    T(KmerMinHashBTree),
}

fn err_name(e: &sourmash::Error) -> String {
    let d = format!("{:?}", e);
    let n: String = d.chars().take_while(|c| c.is_alphanumeric()).collect();
    format!("err {}", n)
}

impl Sk {
    fn new(tree: bool, scaled: u64, k: u32, num: u32, track: bool) -> Sk {
        if tree {
            Sk::T(KmerMinHashBTree::new(scaled, k, HashFunctions::Murmur64Dna, 42, track, num))
        } else {
            Sk::V(KmerMinHash::new(scaled, k, HashFunctions::Murmur64Dna, 42, track, num))
        }
    }
    fn max_hash(&self) -> u64 {
        match self {
            Sk::V(m) => m.max_hash(),
            Sk::T(m) => m.max_hash(),
        }
    }
    fn mins(&self) -> String {
        format!(
            "mins={}",
            show_nats(match self {
                Sk::V(m) => m.mins(),
                Sk::T(m) => m.mins(),
            })
        )
    }
    fn md5(&self) -> String {
        match self {
            Sk::V(m) => m.md5sum(),
            Sk::T(m) => m.md5sum(),
        }
    }
}

struct St {
    main: Option<Sk>,
    other: Option<Sk>,
}

fn kv<'a>(ws: &'a [&str], key: &str) -> &'a str {
    for w in ws {
        if let Some(v) = w.strip_prefix(key) {
            if let Some(v) = v.strip_prefix('=') {
                return v;
            }
        }
    }
    panic!("missing {}", key)
}

fn step(st: &mut St, ws: &[&str]) -> String {
    if ws[0] == "case" {
        let tree = ws[2] == "tree";
        let scaled: u64 = kv(ws, "scaled").parse().unwrap();
        let mh: u64 = kv(ws, "mh").parse().unwrap();
        let num: u32 = kv(ws, "num").parse().unwrap();
        let k: u32 = kv(ws, "k").parse().unwrap();
        let track = kv(ws, "track") == "1";
        let otrack = kv(ws, "otrack") == "1";
        let main = Sk::new(tree, scaled, k, num, track);
        if main.max_hash() != mh {
            st.main = None;
            st.other = None;
            return format!("err max_hash {}", main.max_hash());
        }
        st.main = Some(main);
        st.other = Some(Sk::new(tree, scaled, k, num, otrack));
        return "ok".into();
    }
    if ws[0] == "eq" {
        return match (st.main.as_ref().unwrap(), st.other.as_ref().unwrap()) {
            (Sk::V(a), Sk::V(b)) => (a == b).to_string(),
            (Sk::T(a), Sk::T(b)) => (a == b).to_string(),
            _ => unreachable!(),
        };
    }
    let (on_other, op) = match ws[0].strip_prefix("o.") {
        Some(op) => (true, op),
        None => (false, ws[0]),
    };
    let (mut tgt, mut src) = (st.main.take().unwrap(), st.other.take().unwrap());
    if on_other {
        std::mem::swap(&mut tgt, &mut src);
    }
    let n = |i: usize| -> u64 { ws[i].parse().unwrap() };
    let unit = |r: Result<(), sourmash::Error>, t: &Sk| -> String {
        match r {
            Ok(()) => t.mins(),
            Err(e) => err_name(&e),
        }
    };
    let out: String = match (op, &mut tgt) {
        ("add", Sk::V(m)) => {
            m.add_hash_with_abundance(n(1), n(2));
            tgt.mins()
        }
        ("add", Sk::T(m)) => {
            m.add_hash_with_abundance(n(1), n(2));
            tgt.mins()
        }
        ("set", Sk::V(m)) => {
            m.set_hash_with_abundance(n(1), n(2));
            tgt.mins()
        }
        ("rm", Sk::V(m)) => {
            m.remove_hash(n(1));
            tgt.mins()
        }
        ("rm", Sk::T(m)) => {
            m.remove_hash(n(1));
            tgt.mins()
        }
        ("rmmany", Sk::V(m)) => {
            let r = m.remove_many(parse_nats(ws[1]));
            unit(r, &tgt)
        }
        ("rmmany", Sk::T(m)) => {
            let r = m.remove_many(parse_nats(ws[1]));
            unit(r, &tgt)
        }
        ("clear", Sk::V(m)) => {
            m.clear();
            tgt.mins()
        }
        ("clear", Sk::T(m)) => {
            m.clear();
            tgt.mins()
        }
        ("merge", Sk::V(m)) => {
            let r = match &src {
                Sk::V(o) => m.merge(o),
                _ => unreachable!(),
            };
            unit(r, &tgt)
        }
        ("merge", Sk::T(m)) => {
            let r = match &src {
                Sk::T(o) => m.merge(o),
                _ => unreachable!(),
            };
            unit(r, &tgt)
        }
        ("enable", Sk::V(m)) => {
            let r = m.enable_abundance();
            unit(r, &tgt)
        }
        ("enable", Sk::T(m)) => {
            let r = m.enable_abundance();
            unit(r, &tgt)
        }
        ("disable", Sk::V(m)) => {
            m.disable_abundance();
            tgt.mins()
        }
        ("disable", Sk::T(m)) => {
            m.disable_abundance();
            tgt.mins()
        }
        ("inflate", Sk::V(m)) => {
            let r = match &src {
                Sk::V(o) => m.inflate(o),
                _ => unreachable!(),
            };
            unit(r, &tgt)
        }
        ("md5", _) => tgt.md5(),
        ("cmd5", Sk::V(m)) => unsafe {
            let s = kmerminhash_md5sum(SourmashKmerMinHash::from_ref(m));
            s.as_str().to_string()
        },
        ("clone", _) => {
            let c = tgt.clone();
            tgt = c;
            tgt.md5()
        }
        ("copy", _) => {
            src = tgt.clone();
            src.md5()
        }
        _ => "bad-op".into(),
    };
    if on_other {
        std::mem::swap(&mut tgt, &mut src);
    }
    st.main = Some(tgt);
    st.other = Some(src);
    out
}

fn gen(a: &Args) {
    let mut r = Rng::new(a.seed);
    let mut o = Out::new();
    let ncases = if a.cases > 0 {
        a.cases
    } else if a.tier == "thorough" {
        150_000
    } else {
        3_000
    };
    let scaleds: [u64; 6] = [1, 2, 3, 4, 5, 8];
    for _ in 0..ncases {
        let tree = r.chance(1, 2);
        let is_scaled = r.chance(1, 2);
        let (scaled, num) = if is_scaled {
            (*r.pick(&scaleds), 0u64)
        } else {
            (0, r.range(1, 6))
        };
        let mh = max_hash_for_scaled(scaled);
        let track = r.chance(1, 2);
        let otrack = if r.chance(7, 10) { track } else { !track };
        let k = *r.pick(&[21u32, 31, 51, 7]);
        o.case(&format!(
            "{} num={} scaled={} mh={} track={} otrack={} k={}",
            if tree { "tree" } else { "vec" },
            num,
            scaled,
            mh,
            track as u8,
            otrack as u8,
            k
        ));
        // Hash universe: a prefix-free set of decimal strings — "0", 19-digit numbers whose first
        // digit is 2..9, and 20-digit numbers (10^19 ..= u64::MAX, first digit 1) — so that
        // different hash lists always have different md5 preimages: the unseparated-preimage
        // ambiguity (known finding, corpus/C13/preimage.ops) cannot be hit by accident and `eq` is
        // decided by the hashes alone.  Both digit lengths of large u64 values are exercised.
        let lo = 2_000_000_000_000_000_000u64;
        let hi = 9_999_999_999_999_999_999u64;
        let big = 10_000_000_000_000_000_000u64;
        let pick_hash = |r: &mut Rng| -> u64 {
            match r.below(10) {
                0..=6 => r.range(lo, hi),
                7..=8 => r.range(big, u64::MAX),
                _ => u64::MAX - r.below(3),
            }
        };
        let mut pool = [0u64; 8];
        for p in pool.iter_mut() {
            *p = pick_hash(&mut r);
        }
        let nops = r.range(1, 30);
        for _ in 0..nops {
            let hash = |r: &mut Rng| -> u64 {
                match r.below(20) {
                    0..=1 => 0,
                    2..=15 => *r.pick(&pool),
                    _ => pick_hash(r),
                }
            };
            let abund = |r: &mut Rng| -> u64 {
                match r.below(10) {
                    0..=5 => 1,
                    6..=7 => r.range(0, 3),
                    8 => 0,
                    _ => r.bits(20),
                }
            };
            let on_o = r.chance(1, 4);
            let pfx = if on_o { "o." } else { "" };
            // an observer before the mutator, most of the time
            if r.chance(3, 4) {
                match r.below(12) {
                    0..=5 => o.op(&format!("{}md5", pfx)),
                    6..=7 => {
                        if tree {
                            o.op(&format!("{}md5", pfx))
                        } else {
                            o.op(&format!("{}cmd5", pfx))
                        }
                    }
                    8 => o.op(&format!("{}clone", pfx)),
                    9 => o.op(&format!("{}copy", pfx)),
                    _ => o.op("eq"),
                }
            }
            match r.below(100) {
                0..=44 => {
                    let (h, ab) = (hash(&mut r), abund(&mut r));
                    o.op(&format!("{}add {} {}", pfx, h, ab));
                }
                45..=51 => {
                    let (h, ab) = (hash(&mut r), abund(&mut r));
                    if tree {
                        o.op(&format!("{}add {} {}", pfx, h, ab));
                    } else {
                        o.op(&format!("{}set {} {}", pfx, h, ab));
                    }
                }
                52..=63 => o.op(&format!("{}rm {}", pfx, hash(&mut r))),
                64..=68 => {
                    let n = r.range(0, 4);
                    let hs: Vec<u64> = (0..n).map(|_| hash(&mut r)).collect();
                    o.op(&format!("{}rmmany {}", pfx, show_nats(hs)));
                }
                69..=74 => o.op(&format!("{}clear", pfx)),
                75..=86 => o.op(&format!("{}merge", pfx)),
                87..=90 => o.op(&format!("{}enable", pfx)),
                91..=94 => o.op(&format!("{}disable", pfx)),
                _ => {
                    if tree {
                        o.op(&format!("{}merge", pfx))
                    } else {
                        o.op(&format!("{}inflate", pfx))
                    }
                }
            }
        }
        // the final state is always observed
        o.op("md5");
        o.op("o.md5");
        o.op("eq");
    }
}

fn main() {
    let a = args();
    match a.mode.as_str() {
        "gen" => gen(&a),
        "exec" => exec_loop(
            || St {
                main: None,
                other: None,
            },
            step,
        ),
        _ => panic!("mode"),
    }
}
