//! C13: a sketch's md5sum always reflects its current contents.
//!
//! Request lines
//!   case <n> <vec|tree> num=<n> scaled=<s> mh=<max_hash> track=<0|1> otrack=<0|1> k=<ksize>
//!        [ok=<ksize of the second sketch>] [onum=<num of the second sketch>] [mol=<dna|protein|dayhoff|hp>]
//!   (`num` and `scaled` may both be non-zero: a sketch bounded by a size AND a ceiling — what
//!   `ComputeParameters` with its default num_hashes produces; the second sketch shares the ceiling —
//!   `check_compatible` compares it — but has its own `num` and its own abundance flag, neither of which
//!   `check_compatible` looks at.)
//!   mutators (answer `mins=<list>`, `err <Variant>` or — when a failed call may have changed the
//!   sketch — `err <Variant> mins=<list>`):
//!     add <h> <a> | set <h> <a> | rm <h> | rmmany <h,..> | clear | merge | enable | disable | inflate
//!     addmany <h,..> | addmanya <h,..> <a,..> | addfrom | rmfrom        (add_many, add_many_with_abund,
//!                                                                        add_from, remove_from)
//!     word <hex> | seq <ascii> <force> | prot <ascii>                    (add_word, add_sequence, add_protein)
//!     sigseq <ascii> <force> | sigprot <ascii>     the sketch is moved into a `Signature` (as
//!                                           `Sketch::MinHash` / `Sketch::LargeMinHash`), `Signature::add_sequence` /
//!                                           `add_protein` runs, the sketch is moved back out (no clone involved)
//!     down <scaled> | downmh <max_hash>     target := target.clone().downsample_*(..)   (kept on error)
//!     downmv <scaled>                       target := target.downsample_scaled(..) by value; on error the
//!                                           moved sketch is gone and the slot gets a new empty one
//!     serde                                 target := serde_json::from_str(&serde_json::to_string(&target))
//!     conv | convr                          BOTH sketches converted to the other type through `From`
//!                                           (`convr`: `From<&KmerMinHashBTree>`, tree → vector only);
//!                                           answers `mins=<main> omins=<other>`
//!   the C API of the vector type (`ffi/minhash.rs`), error code read back after every call:
//!     cadd <h> | cadda <h> <a> | caddmany <h,..> | cword <hex> | cseq <ascii> <force> | cprot <ascii>
//!     crm <h> | crmmany <h,..> | cclear | cmerge | caddfrom | crmfrom | csetab <h,..> <a,..> <clear>
//!     cenable | cdisable
//!   observers:
//!     md5   -> hex digest through `md5sum()`
//!     jmd5  -> the `md5sum` field of the sketch inside the JSON form of a `Signature` that holds it
//!     cmd5  -> hex digest through the C API `kmerminhash_md5sum` (vector type only)
//!     clone -> the sketch is replaced by its `Clone`; answers the clone's md5sum
//!     copy  -> the *other* sketch becomes a `Clone` of this one; answers the copy's md5sum
//!     eq    -> `main == other`;  req -> `other == main`   (`true` / `false`)
//!   every op except `eq`/`req`/`conv`/`convr` takes the prefix `o.` to act on the second sketch
//!   (binary ops then use the main sketch as their operand).
//! `regs` cases — copies next to their sources:
//!   case <n> regs num=<n> scaled=<s> mh=<max_hash> k=<ksize> [mol=..] regs=<v|t><track>,…
//!        a register file of new sketches (`v0` = vector without abundances, `t1` = tree with, …), all LIVE
//!        for the whole case
//!   r <i> <j> <op> <args…>   any op above (no `o.` prefix) on register i, register j != i as its operand
//!                            (binary ops need both of one type; `copy` puts the clone into j and asks it)
//!   req <i> <j>              `reg i == reg j` (one type)
//!   dup <i> <j> c|sig|ffi    reg j := a `Clone` of reg i — directly, as part of a cloned `Signature` that owns
//!                            the sketch, or through `signature_push_mh` + `signature_first_mh` (vector type);
//!                            answers the copy's hashes: NO digest is asked of either
//!   rserde <i> <j>           reg j := from_str(to_string(&reg i))
//!   rconv <i> <j> clone|ref|ffi   reg j := From(reg i.clone()) / KmerMinHash::from(&tree) /
//!                            `signature_first_mh` on a Signature holding the tree sketch
//!   rconvi <i>               reg i := From(reg i) by value
//!   (the two-sketch ops `clone` / `copy` / `down*` could not show a digest cell SHARED between a copy
//!   and its source: `clone` drops the source, `copy` asks the copy's md5sum at once — which fills a shared
//!   cell before anything is mutated — and `down*` clone a temporary.  Here a copy taken while no digest
//!   exists stays next to its source, one of the two is mutated, and both are asked in either order.)
//! The generator calls an observer BEFORE most mutators — the order under which a forgotten cache
//! invalidation shows — and often again right after.
use sourmash::encodings::HashFunctions;
use sourmash::ffi::minhash::*;
use sourmash::ffi::signature::{signature_first_mh, signature_free, signature_new, signature_push_mh, SourmashSignature};
use sourmash::ffi::utils::{sourmash_err_clear, sourmash_err_get_last_code, ForeignObject};
use sourmash::signature::{Signature, SigsTrait};
use sourmash::sketch::Sketch;
use sourmash::sketch::minhash::{max_hash_for_scaled, KmerMinHash, KmerMinHashBTree};
use std::ffi::CString;
use verif_harness::*;

#[derive(Clone)]
enum Sk {
    V(KmerMinHash),
    T(KmerMinHashBTree),
}

fn err_name(e: &sourmash::Error) -> String {
    let d = format!("{:?}", e);
    let n: String = d.chars().take_while(|c| c.is_alphanumeric()).collect();
    format!("err {}", n)
}

fn hash_fn(mol: &str) -> HashFunctions {
    match mol {
        "protein" => HashFunctions::Murmur64Protein,
        "dayhoff" => HashFunctions::Murmur64Dayhoff,
        "hp" => HashFunctions::Murmur64Hp,
        _ => HashFunctions::Murmur64Dna,
    }
}

macro_rules! on {
    ($t:expr, $m:ident => $e:expr) => {
        match $t {
            Sk::V($m) => $e,
            Sk::T($m) => $e,
        }
    };
}

impl Sk {
    fn new(tree: bool, scaled: u64, k: u32, num: u32, track: bool, hf: HashFunctions) -> Sk {
        if tree {
            Sk::T(KmerMinHashBTree::new(scaled, k, hf, 42, track, num))
        } else {
            Sk::V(KmerMinHash::new(scaled, k, hf, 42, track, num))
        }
    }
    fn max_hash(&self) -> u64 {
        on!(self, m => m.max_hash())
    }
    fn mins_list(&self) -> String {
        show_nats(on!(self, m => m.mins()))
    }
    fn mins(&self) -> String {
        format!("mins={}", self.mins_list())
    }
    fn md5(&self) -> String {
        on!(self, m => m.md5sum())
    }
}

/// run `f` on a `Signature` that owns the sketch (moved in and out again, never cloned)
fn in_sig<R>(tgt: &mut Sk, f: impl FnOnce(&mut Signature) -> R) -> R {
    let dummy = || KmerMinHash::new(0, 1, HashFunctions::Murmur64Dna, 42, false, 1);
    let owned = std::mem::replace(tgt, Sk::V(dummy()));
    let mut sig = Signature::default();
    sig.push(match owned {
        Sk::V(m) => Sketch::MinHash(m),
        Sk::T(m) => Sketch::LargeMinHash(m),
    });
    let r = f(&mut sig);
    let mut out = Sketch::MinHash(dummy());
    for s in sig.iter_mut() {
        std::mem::swap(s, &mut out);
    }
    *tgt = match out {
        Sketch::MinHash(m) => Sk::V(m),
        Sketch::LargeMinHash(m) => Sk::T(m),
        _ => unreachable!(),
    };
    r
}

struct St {
    main: Option<Sk>,
    other: Option<Sk>,
    /// `regs` cases: any number of live sketches
    regs: Vec<Sk>,
}

/// ops that read the operand sketch (or, `copy`, overwrite it): both registers must be of one type
const BINARY: [&str; 8] = ["merge", "inflate", "addfrom", "rmfrom", "copy", "cmerge", "caddfrom", "crmfrom"];

/// a placeholder that sits in a register slot while the real sketch is moved out
fn dummy_sk() -> Sk {
    Sk::V(KmerMinHash::new(0, 1, HashFunctions::Murmur64Dna, 42, false, 1))
}

/// `Clone` through a `Signature` that owns the sketch: the sketch is moved in, the whole `Signature`
/// is cloned (derived `Clone` of `Signature` / `Sketch` → `Clone` of the sketch), both moved out again
fn clone_in_sig(orig: &mut Sk) -> Sk {
    let take = |sig: &mut Signature| -> Sk {
        let mut out = Sketch::MinHash(KmerMinHash::new(0, 1, HashFunctions::Murmur64Dna, 42, false, 1));
        for s in sig.iter_mut() {
            std::mem::swap(s, &mut out);
        }
        match out {
            Sketch::MinHash(m) => Sk::V(m),
            Sketch::LargeMinHash(m) => Sk::T(m),
            _ => unreachable!(),
        }
    };
    let owned = std::mem::replace(orig, dummy_sk());
    let mut sig = Signature::default();
    sig.push(match owned {
        Sk::V(m) => Sketch::MinHash(m),
        Sk::T(m) => Sketch::LargeMinHash(m),
    });
    let mut sig2 = sig.clone();
    *orig = take(&mut sig);
    take(&mut sig2)
}

/// `regs` cases
fn step_regs(st: &mut St, ws: &[&str]) -> String {
    let nreg = st.regs.len();
    let idx = |w: &str| -> Option<usize> { w.parse::<usize>().ok().filter(|&i| i < nreg) };
    let two = |a: &str, b: &str| -> Option<(usize, usize)> {
        match (idx(a), idx(b)) {
            (Some(i), Some(j)) if i != j => Some((i, j)),
            _ => None,
        }
    };
    match ws[0] {
        "r" if ws.len() >= 4 => {
            let Some((i, j)) = two(ws[1], ws[2]) else { return "bad-op".into() };
            let op = ws[3];
            let same = matches!((&st.regs[i], &st.regs[j]), (Sk::V(_), Sk::V(_)) | (Sk::T(_), Sk::T(_)));
            if !same && BINARY.contains(&op) {
                return "bad-op".into();
            }
            let tgt = std::mem::replace(&mut st.regs[i], dummy_sk());
            let src = std::mem::replace(&mut st.regs[j], dummy_sk());
            let (tgt, src, out) = apply(tgt, src, op, &ws[3..]);
            st.regs[i] = tgt;
            st.regs[j] = src;
            out
        }
        "req" if ws.len() == 3 => {
            let Some((i, j)) = two(ws[1], ws[2]) else { return "bad-op".into() };
            match (&st.regs[i], &st.regs[j]) {
                (Sk::V(a), Sk::V(b)) => (a == b).to_string(),
                (Sk::T(a), Sk::T(b)) => (a == b).to_string(),
                _ => "bad-op".into(),
            }
        }
        // reg j := a `Clone` of reg i; nothing is asked of either, both stay alive
        "dup" if ws.len() == 4 => {
            let Some((i, j)) = two(ws[1], ws[2]) else { return "bad-op".into() };
            let c = match ws[3] {
                "c" => st.regs[i].clone(),
                "sig" => clone_in_sig(&mut st.regs[i]),
                // the C API: `signature_push_mh` clones into a signature, `signature_first_mh` hands
                // out a clone of that clone
                "ffi" => match &st.regs[i] {
                    Sk::V(m) => unsafe {
                        sourmash_err_clear();
                        let sig = signature_new();
                        signature_push_mh(sig, SourmashKmerMinHash::from_ref(m));
                        let h = signature_first_mh(sig);
                        signature_free(sig);
                        if let Some(e) = ffi_err() {
                            return e;
                        }
                        Sk::V(*SourmashKmerMinHash::into_rust(h))
                    },
                    _ => return "bad-op".into(),
                },
                _ => return "bad-op".into(),
            };
            st.regs[j] = c;
            st.regs[j].mins()
        }
        "rserde" if ws.len() == 3 => {
            let Some((i, j)) = two(ws[1], ws[2]) else { return "bad-op".into() };
            let x = match &st.regs[i] {
                Sk::V(m) => Sk::V(serde_json::from_str(&serde_json::to_string(m).unwrap()).unwrap()),
                Sk::T(m) => Sk::T(serde_json::from_str(&serde_json::to_string(m).unwrap()).unwrap()),
            };
            st.regs[j] = x;
            st.regs[j].mins()
        }
        // reg j := the `From` conversion of reg i (which stays alive): of a clone, by reference
        // (tree sources), or through `signature_first_mh` on a Signature holding the tree sketch
        "rconv" if ws.len() == 4 => {
            let Some((i, j)) = two(ws[1], ws[2]) else { return "bad-op".into() };
            let x = match (ws[3], &mut st.regs[i]) {
                ("clone", Sk::V(m)) => Sk::T(KmerMinHashBTree::from(m.clone())),
                ("clone", Sk::T(m)) => Sk::V(KmerMinHash::from(m.clone())),
                ("ref", Sk::T(m)) => Sk::V(KmerMinHash::from(&*m)),
                ("ffi", Sk::T(_)) => {
                    let r = in_sig(&mut st.regs[i], |sig| unsafe {
                        sourmash_err_clear();
                        let h = signature_first_mh(SourmashSignature::from_ref(&*sig));
                        match ffi_err() {
                            Some(e) => Err(e),
                            None => Ok(*SourmashKmerMinHash::into_rust(h)),
                        }
                    });
                    match r {
                        Ok(m) => Sk::V(m),
                        Err(e) => return e,
                    }
                }
                _ => return "bad-op".into(),
            };
            st.regs[j] = x;
            st.regs[j].mins()
        }
        // reg i := the `From` conversion of reg i (by value)
        "rconvi" if ws.len() == 2 => {
            let Some(i) = idx(ws[1]) else { return "bad-op".into() };
            let old = std::mem::replace(&mut st.regs[i], dummy_sk());
            st.regs[i] = match old {
                Sk::V(m) => Sk::T(KmerMinHashBTree::from(m)),
                Sk::T(m) => Sk::V(KmerMinHash::from(m)),
            };
            st.regs[i].mins()
        }
        _ => "bad-op".into(),
    }
}

fn kv_opt<'a>(ws: &'a [&str], key: &str) -> Option<&'a str> {
    for w in ws {
        if let Some(v) = w.strip_prefix(key) {
            if let Some(v) = v.strip_prefix('=') {
                return Some(v);
            }
        }
    }
    None
}
fn kv<'a>(ws: &'a [&str], key: &str) -> &'a str {
    kv_opt(ws, key).unwrap_or_else(|| panic!("missing {}", key))
}

fn seq_bytes(s: &str) -> Vec<u8> {
    if s == "-" {
        vec![]
    } else {
        s.as_bytes().to_vec()
    }
}

/// error code left by the last C API call (cleared), as `err <Variant>`
fn ffi_err() -> Option<String> {
    let code = unsafe { sourmash_err_get_last_code() } as u32;
    unsafe { sourmash_err_clear() };
    let name = match code {
        0 => return None,
        1 => "Panic",
        101 => "MismatchKSizes",
        102 => "MismatchDNAProt",
        103 => "MismatchScaled",
        104 => "MismatchSeed",
        106 => "NonEmptyMinHash",
        108 => "NeedsAbundanceTracking",
        109 => "CannotUpsampleScaled",
        1101 => "InvalidDNA",
        1102 => "InvalidProt",
        1103 => "InvalidCodonLength",
        1104 => "InvalidHashFunction",
        c => return Some(format!("err code{}", c)),
    };
    Some(format!("err {}", name))
}

fn handle(m: &mut KmerMinHash) -> *mut SourmashKmerMinHash {
    m as *mut KmerMinHash as *mut SourmashKmerMinHash
}

fn step(st: &mut St, ws: &[&str]) -> String {
    if ws[0] == "case" && ws[2] == "regs" {
        // case <n> regs num= scaled= mh= k= [mol=] regs=<v|t><track>,…   (every register is a new sketch)
        let scaled: u64 = kv(ws, "scaled").parse().unwrap();
        let mh: u64 = kv(ws, "mh").parse().unwrap();
        let num: u32 = kv(ws, "num").parse().unwrap();
        let k: u32 = kv(ws, "k").parse().unwrap();
        let hf = hash_fn(kv_opt(ws, "mol").unwrap_or("dna"));
        st.main = None;
        st.other = None;
        st.regs = kv(ws, "regs")
            .split(',')
            .map(|d| Sk::new(d.starts_with('t'), scaled, k, num, d.ends_with('1'), hf.clone()))
            .collect();
        if st.regs.is_empty() || st.regs[0].max_hash() != mh {
            let m = st.regs.first().map(|r| r.max_hash()).unwrap_or(0);
            st.regs.clear();
            return format!("err max_hash {}", m);
        }
        return "ok".into();
    }
    if !st.regs.is_empty() {
        return step_regs(st, ws);
    }
    if ws[0] == "case" {
        let tree = ws[2] == "tree";
        let scaled: u64 = kv(ws, "scaled").parse().unwrap();
        let mh: u64 = kv(ws, "mh").parse().unwrap();
        let num: u32 = kv(ws, "num").parse().unwrap();
        let k: u32 = kv(ws, "k").parse().unwrap();
        let ko: u32 = kv_opt(ws, "ok").map(|v| v.parse().unwrap()).unwrap_or(k);
        let onum: u32 = kv_opt(ws, "onum").map(|v| v.parse().unwrap()).unwrap_or(num);
        let track = kv(ws, "track") == "1";
        let otrack = kv(ws, "otrack") == "1";
        let hf = hash_fn(kv_opt(ws, "mol").unwrap_or("dna"));
        let main = Sk::new(tree, scaled, k, num, track, hf.clone());
        if main.max_hash() != mh {
            st.main = None;
            st.other = None;
            return format!("err max_hash {}", main.max_hash());
        }
        st.main = Some(main);
        st.other = Some(Sk::new(tree, scaled, ko, onum, otrack, hf));
        return "ok".into();
    }
    match ws[0] {
        "eq" | "req" => {
            let (a, b) = (st.main.as_ref().unwrap(), st.other.as_ref().unwrap());
            let (a, b) = if ws[0] == "eq" { (a, b) } else { (b, a) };
            return match (a, b) {
                (Sk::V(a), Sk::V(b)) => (a == b).to_string(),
                (Sk::T(a), Sk::T(b)) => (a == b).to_string(),
                _ => unreachable!(),
            };
        }
        "conv" | "convr" => {
            let by_ref = ws[0] == "convr";
            if by_ref && matches!(st.main, Some(Sk::V(_))) {
                return "bad-op".into();
            }
            let cv = |s: Sk| -> Sk {
                match s {
                    Sk::V(m) => Sk::T(KmerMinHashBTree::from(m)),
                    Sk::T(m) => {
                        if by_ref {
                            Sk::V(KmerMinHash::from(&m))
                        } else {
                            Sk::V(KmerMinHash::from(m))
                        }
                    }
                }
            };
            let a = cv(st.main.take().unwrap());
            let b = cv(st.other.take().unwrap());
            let out = format!("mins={} omins={}", a.mins_list(), b.mins_list());
            st.main = Some(a);
            st.other = Some(b);
            return out;
        }
        _ => {}
    }
    let (on_other, op) = match ws[0].strip_prefix("o.") {
        Some(op) => (true, op),
        None => (false, ws[0]),
    };
    let (mut tgt, mut src) = (st.main.take().unwrap(), st.other.take().unwrap());
    if on_other {
        std::mem::swap(&mut tgt, &mut src);
    }
    let (mut tgt, mut src, out) = apply(tgt, src, op, ws);
    if on_other {
        std::mem::swap(&mut tgt, &mut src);
    }
    st.main = Some(tgt);
    st.other = Some(src);
    out
}

/// one op `ws[0]` (prefix stripped: `op`) with arguments `ws[1..]` on `tgt`, `src` as the operand of the
/// binary ones (both of one type for those)
fn apply(mut tgt: Sk, mut src: Sk, op: &str, ws: &[&str]) -> (Sk, Sk, String) {
    let n = |i: usize| -> u64 { ws[i].parse().unwrap() };
    let unit = |r: Result<(), sourmash::Error>, t: &Sk| -> String {
        match r {
            Ok(()) => t.mins(),
            Err(e) => err_name(&e),
        }
    };
    // a failed call that may have changed the sketch on its way
    let unit_mins = |r: Result<(), sourmash::Error>, t: &Sk| -> String {
        match r {
            Ok(()) => t.mins(),
            Err(e) => format!("{} {}", err_name(&e), t.mins()),
        }
    };
    let pairs = |i: usize| -> Vec<(u64, u64)> { parse_nats(ws[i]).into_iter().zip(parse_nats(ws[i + 1])).collect() };
    let out: String = match (op, &mut tgt) {
        ("add", t) => {
            on!(t, m => m.add_hash_with_abundance(n(1), n(2)));
            tgt.mins()
        }
        ("set", Sk::V(m)) => {
            m.set_hash_with_abundance(n(1), n(2));
            tgt.mins()
        }
        ("rm", t) => {
            on!(t, m => m.remove_hash(n(1)));
            tgt.mins()
        }
        ("rmmany", t) => {
            let r = on!(t, m => m.remove_many(parse_nats(ws[1])));
            unit(r, &tgt)
        }
        ("clear", t) => {
            on!(t, m => m.clear());
            tgt.mins()
        }
        ("merge", t) => {
            let r = match (t, &src) {
                (Sk::V(m), Sk::V(o)) => m.merge(o),
                (Sk::T(m), Sk::T(o)) => m.merge(o),
                _ => unreachable!(),
            };
            unit(r, &tgt)
        }
        ("enable", t) => {
            let r = on!(t, m => m.enable_abundance());
            unit(r, &tgt)
        }
        ("disable", t) => {
            on!(t, m => m.disable_abundance());
            tgt.mins()
        }
        ("inflate", Sk::V(m)) => {
            let r = match &src {
                Sk::V(o) => m.inflate(o),
                _ => unreachable!(),
            };
            unit(r, &tgt)
        }
        ("addmany", t) => {
            let hs = parse_nats(ws[1]);
            let r = on!(t, m => m.add_many(&hs));
            unit_mins(r, &tgt)
        }
        ("addmanya", t) => {
            let ps = pairs(1);
            let r = on!(t, m => m.add_many_with_abund(&ps));
            unit_mins(r, &tgt)
        }
        ("addfrom", t) => {
            let r = match (t, &src) {
                (Sk::V(m), Sk::V(o)) => m.add_from(o),
                (Sk::T(m), Sk::T(o)) => m.add_from(o),
                _ => unreachable!(),
            };
            unit_mins(r, &tgt)
        }
        ("rmfrom", Sk::V(m)) => {
            let r = match &src {
                Sk::V(o) => m.remove_from(o),
                _ => unreachable!(),
            };
            unit_mins(r, &tgt)
        }
        ("word", t) => {
            let w = unhex(ws[1]);
            on!(t, m => m.add_word(&w));
            tgt.mins()
        }
        ("seq", t) => {
            let s = seq_bytes(ws[1]);
            let r = on!(t, m => m.add_sequence(&s, ws[2] == "1"));
            unit_mins(r, &tgt)
        }
        ("prot", t) => {
            let s = seq_bytes(ws[1]);
            let r = on!(t, m => m.add_protein(&s));
            unit_mins(r, &tgt)
        }
        ("sigseq", _) => {
            let s = seq_bytes(ws[1]);
            let r = in_sig(&mut tgt, |sig| sig.add_sequence(&s, ws[2] == "1"));
            unit_mins(r, &tgt)
        }
        ("sigprot", _) => {
            let s = seq_bytes(ws[1]);
            let r = in_sig(&mut tgt, |sig| sig.add_protein(&s));
            unit_mins(r, &tgt)
        }
        ("jmd5", _) => in_sig(&mut tgt, |sig| {
            let v = serde_json::to_value(&*sig).unwrap();
            v["signatures"][0]["md5sum"].as_str().unwrap().to_string()
        }),
        ("down", _) | ("downmh", _) => {
            let by_scaled = op == "down";
            let r = match &tgt {
                Sk::V(m) => {
                    let c = m.clone();
                    if by_scaled { c.downsample_scaled(n(1)) } else { c.downsample_max_hash(n(1)) }.map(Sk::V)
                }
                Sk::T(m) => {
                    let c = m.clone();
                    if by_scaled { c.downsample_scaled(n(1)) } else { c.downsample_max_hash(n(1)) }.map(Sk::T)
                }
            };
            match r {
                Ok(x) => {
                    tgt = x;
                    tgt.mins()
                }
                Err(e) => err_name(&e),
            }
        }
        ("downmv", _) => {
            let (tree, scaled, k, num, track, hf) = match &tgt {
                Sk::V(m) => (false, m.scaled(), m.ksize() as u32, m.num(), m.track_abundance(), m.hash_function()),
                Sk::T(m) => (true, m.scaled(), m.ksize() as u32, m.num(), m.track_abundance(), m.hash_function()),
            };
            let old = std::mem::replace(&mut tgt, Sk::new(tree, scaled, k, num, track, hf));
            let r = match old {
                Sk::V(m) => m.downsample_scaled(n(1)).map(Sk::V),
                Sk::T(m) => m.downsample_scaled(n(1)).map(Sk::T),
            };
            match r {
                Ok(x) => {
                    tgt = x;
                    tgt.mins()
                }
                Err(e) => format!("{} {}", err_name(&e), tgt.mins()),
            }
        }
        ("serde", _) => {
            let x = match &tgt {
                Sk::V(m) => Sk::V(serde_json::from_str(&serde_json::to_string(m).unwrap()).unwrap()),
                Sk::T(m) => Sk::T(serde_json::from_str(&serde_json::to_string(m).unwrap()).unwrap()),
            };
            tgt = x;
            tgt.mins()
        }
        ("md5", _) => tgt.md5(),
        ("clone", _) => {
            let c = tgt.clone();
            tgt = c;
            tgt.md5()
        }
        ("copy", _) => {
            src = tgt.clone();
            src.md5()
        }
        // ---- the C API (vector type only)
        ("cmd5", Sk::V(m)) => unsafe {
            let s = kmerminhash_md5sum(SourmashKmerMinHash::from_ref(m));
            s.as_str().to_string()
        },
        (c, Sk::V(m)) if c.starts_with('c') => unsafe {
            sourmash_err_clear();
            let h = handle(m);
            let known = match c {
                "cadd" => {
                    kmerminhash_add_hash(h, n(1));
                    true
                }
                "cadda" => {
                    kmerminhash_add_hash_with_abundance(h, n(1), n(2));
                    true
                }
                "caddmany" => {
                    let hs = parse_nats(ws[1]);
                    kmerminhash_add_many(h, hs.as_ptr(), hs.len());
                    true
                }
                "cword" => {
                    let w = CString::new(unhex(ws[1])).unwrap();
                    kmerminhash_add_word(h, w.as_ptr());
                    true
                }
                "cseq" => {
                    let s = CString::new(seq_bytes(ws[1])).unwrap();
                    kmerminhash_add_sequence(h, s.as_ptr(), ws[2] == "1");
                    true
                }
                "cprot" => {
                    let s = CString::new(seq_bytes(ws[1])).unwrap();
                    kmerminhash_add_protein(h, s.as_ptr());
                    true
                }
                "crm" => {
                    kmerminhash_remove_hash(h, n(1));
                    true
                }
                "crmmany" => {
                    let hs = parse_nats(ws[1]);
                    kmerminhash_remove_many(h, hs.as_ptr(), hs.len());
                    true
                }
                "cclear" => {
                    kmerminhash_clear(h);
                    true
                }
                "cmerge" | "caddfrom" | "crmfrom" => {
                    let o = match &src {
                        Sk::V(o) => SourmashKmerMinHash::from_ref(o),
                        _ => unreachable!(),
                    };
                    match c {
                        "cmerge" => kmerminhash_merge(h, o),
                        "caddfrom" => kmerminhash_add_from(h, o),
                        _ => kmerminhash_remove_from(h, o),
                    };
                    true
                }
                "csetab" => {
                    let (hs, abs) = (parse_nats(ws[1]), parse_nats(ws[2]));
                    let k = hs.len().min(abs.len());
                    kmerminhash_set_abundances(h, hs.as_ptr(), abs.as_ptr(), k, ws[3] == "1");
                    true
                }
                "cenable" => {
                    kmerminhash_enable_abundance(h);
                    true
                }
                "cdisable" => {
                    kmerminhash_disable_abundance(h);
                    true
                }
                _ => false,
            };
            if !known {
                "bad-op".into()
            } else {
                match ffi_err() {
                    None => tgt.mins(),
                    // only the sequence entry points can fail after having changed the sketch
                    Some(e) if c == "cseq" || c == "cprot" => format!("{} {}", e, tgt.mins()),
                    Some(e) => e,
                }
            }
        },
        _ => "bad-op".into(),
    };
    (tgt, src, out)
}

// ------------------------------------------------------------------------------------ generator

/// Hash universe of the explicit hash arguments: a prefix-free set of decimal strings — "0", 19-digit
/// numbers whose first digit is 2..9, and 20-digit numbers (10^19 ..= u64::MAX, first digit 1) — so
/// that different hash lists always have different md5 preimages: the unseparated-preimage ambiguity
/// (known finding, corpus/C13/preimage.ops) cannot be hit by accident and `eq` is decided by ksize
/// and hashes alone.  Both digit lengths of large u64 values are exercised.  (k-mer hashes of the
/// sequence ops are arbitrary 64-bit values; an accidental coincidence of two digit strings needs a
/// 60-bit collision.)  The ksize sets {7,21,31,51} and {21,30,33,57} are prefix-free too.
fn pick_hash(r: &mut Rng) -> u64 {
    let lo = 2_000_000_000_000_000_000u64;
    let hi = 9_999_999_999_999_999_999u64;
    let big = 10_000_000_000_000_000_000u64;
    match r.below(10) {
        0..=6 => r.range(lo, hi),
        7..=8 => r.range(big, u64::MAX),
        _ => u64::MAX - r.below(3),
    }
}

struct Gen {
    tree: bool,
    protein: bool,
    k: u32,
    ko: u32,
    pool: [u64; 8],
}

impl Gen {
    fn hash(&self, r: &mut Rng) -> u64 {
        match r.below(20) {
            0..=1 => 0,
            2..=15 => *r.pick(&self.pool),
            _ => pick_hash(r),
        }
    }
    fn abund(&self, r: &mut Rng) -> u64 {
        match r.below(10) {
            0..=5 => 1,
            6..=7 => r.range(0, 3),
            8 => 0,
            _ => r.bits(20),
        }
    }
    fn hashes(&self, r: &mut Rng, max: u64) -> Vec<u64> {
        let n = r.range(0, max);
        (0..n).map(|_| self.hash(r)).collect()
    }
    fn dna(&self, r: &mut Rng, k: u32) -> String {
        let k = k as u64;
        let len = match r.below(20) {
            0..=13 => k + r.range(0, 10),
            14..=16 => r.range(0, k.saturating_sub(1)),
            _ => k + r.range(10, 40),
        };
        let lower = r.chance(1, 10);
        let mut s: Vec<u8> = (0..len)
            .map(|_| if lower { *r.pick(b"acgt") } else { *r.pick(b"ACGT") })
            .collect();
        if !s.is_empty() && r.chance(2, 5) {
            // an invalid base; towards the end most of the time, so that valid k-mers precede it
            let p = if r.chance(2, 3) { r.range(len * 2 / 3, len - 1) } else { r.below(len) } as usize;
            s[p] = *r.pick(b"NXRYnx.*");
            if r.chance(1, 4) {
                let q = r.below(len) as usize;
                s[q] = *r.pick(b"NXn");
            }
        }
        if s.is_empty() {
            "-".into()
        } else {
            String::from_utf8(s).unwrap()
        }
    }
    fn prot(&self, r: &mut Rng, k: u32) -> String {
        let w = (k / 3) as u64;
        let len = match r.below(10) {
            0..=6 => w + r.range(0, 8),
            7 => r.range(0, w.saturating_sub(1)),
            _ => w + r.range(8, 25),
        };
        let s: Vec<u8> = (0..len)
            .map(|_| {
                if r.chance(1, 12) {
                    *r.pick(b"XBZ*acdw")
                } else {
                    *r.pick(b"ACDEFGHIKLMNPQRSTVWY")
                }
            })
            .collect();
        if s.is_empty() {
            "-".into()
        } else {
            String::from_utf8(s).unwrap()
        }
    }
    fn word(&self, r: &mut Rng) -> String {
        let len = r.range(0, 12);
        let w: Vec<u8> = (0..len).map(|_| *r.pick(b"ACGTacgtNXYZ0189_")).collect();
        hex(&w)
    }
    /// one mutator request (without the `o.` prefix); the flag says "always observe afterwards"
    fn mutator(&self, r: &mut Rng, on_o: bool) -> (String, bool) {
        let k = if on_o { self.ko } else { self.k };
        let c_api = !self.tree && r.chance(1, 4);
        let seqlike = |r: &mut Rng, g: &Gen| -> String {
            if g.protein && r.chance(1, 2) {
                g.prot(r, k)
            } else {
                g.dna(r, k)
            }
        };
        match r.below(100) {
            0..=21 => {
                let (h, ab) = (self.hash(r), self.abund(r));
                if c_api {
                    if r.chance(1, 2) {
                        (format!("cadd {}", h), false)
                    } else {
                        (format!("cadda {} {}", h, ab), false)
                    }
                } else {
                    (format!("add {} {}", h, ab), false)
                }
            }
            22..=26 => {
                let (h, ab) = (self.hash(r), self.abund(r));
                if self.tree {
                    (format!("add {} {}", h, ab), false)
                } else {
                    (format!("set {} {}", h, ab), false)
                }
            }
            27..=33 => (format!("{} {}", if c_api { "crm" } else { "rm" }, self.hash(r)), false),
            34..=37 => (
                format!("{} {}", if c_api { "crmmany" } else { "rmmany" }, show_nats(self.hashes(r, 4))),
                false,
            ),
            38..=41 => ((if c_api { "cclear" } else { "clear" }).into(), false),
            42..=48 => ((if c_api { "cmerge" } else { "merge" }).into(), false),
            49..=50 => ((if c_api { "cenable" } else { "enable" }).into(), false),
            51..=52 => ((if c_api { "cdisable" } else { "disable" }).into(), false),
            53..=55 => {
                if self.tree {
                    ("merge".into(), false)
                } else {
                    ("inflate".into(), false)
                }
            }
            56..=62 => (
                format!("{} {}", if c_api { "caddmany" } else { "addmany" }, show_nats(self.hashes(r, 6))),
                true,
            ),
            63..=67 => {
                let hs = self.hashes(r, 6);
                let abs: Vec<u64> = hs.iter().map(|_| self.abund(r)).collect();
                if c_api {
                    (format!("csetab {} {} {}", show_nats(hs), show_nats(abs), r.below(2)), true)
                } else {
                    (format!("addmanya {} {}", show_nats(hs), show_nats(abs)), true)
                }
            }
            68..=71 => ((if c_api { "caddfrom" } else { "addfrom" }).into(), true),
            72..=74 => {
                if self.tree {
                    ("addfrom".into(), true)
                } else {
                    ((if c_api { "crmfrom" } else { "rmfrom" }).into(), true)
                }
            }
            75..=77 => (format!("{} {}", if c_api { "cword" } else { "word" }, self.word(r)), true),
            78..=87 => {
                let s = seqlike(r, self);
                let name = if c_api {
                    "cseq"
                } else if r.chance(1, 4) {
                    "sigseq"
                } else {
                    "seq"
                };
                (format!("{} {} {}", name, s, r.chance(1, 3) as u8), true)
            }
            88..=90 => {
                let s = if self.protein || r.chance(1, 2) { self.prot(r, k) } else { self.dna(r, k) };
                let name = if c_api {
                    "cprot"
                } else if r.chance(1, 4) {
                    "sigprot"
                } else {
                    "prot"
                };
                (format!("{} {}", name, s), true)
            }
            91..=93 => {
                let sc = *r.pick(&[0u64, 1, 2, 3, 4, 5, 8, 8, 16]);
                match r.below(4) {
                    0 => (format!("downmv {}", sc), true),
                    1 => {
                        let mh = if r.chance(3, 4) { max_hash_for_scaled(sc) } else { pick_hash(r) };
                        (format!("downmh {}", mh), true)
                    }
                    _ => (format!("down {}", sc), true),
                }
            }
            94..=96 => ("serde".into(), true),
            _ => ("clear".into(), false),
        }
    }
    /// "accumulate into a sketch of another size": the source is filled with MORE hashes than the
    /// receiver may hold (or fewer), its digest is cached through one of the observers or left
    /// uncached, the receiver is empty or not, then merge / add_from / the C API forms, and the
    /// receiver is observed through every route (its digest must be the one of the truncated contents)
    fn merge_prelude(&self, r: &mut Rng, o: &mut Out) {
        let recv_other = r.chance(1, 3);
        let (rp, sp) = if recv_other { ("o.", "") } else { ("", "o.") };
        let c_api = !self.tree && r.chance(1, 4);
        // distinct hashes, ascending or not
        let n = r.range(1, 8);
        let mut hs: Vec<u64> = (0..n).map(|_| if r.chance(3, 4) { *r.pick(&self.pool) } else { pick_hash(r) }).collect();
        if r.chance(1, 2) {
            hs.sort();
        }
        if r.chance(1, 3) {
            let abs: Vec<u64> = hs.iter().map(|_| r.range(1, 4)).collect();
            o.op(&format!("{}addmanya {} {}", sp, show_nats(hs.clone()), show_nats(abs)));
        } else {
            o.op(&format!("{}addmany {}", sp, show_nats(hs.clone())));
        }
        // receiver: empty (half of the time), or holding some hashes (of the source's or others)
        match r.below(6) {
            0..=2 => {}
            3 => o.op(&format!("{}add {} 1", rp, *r.pick(&hs))),
            4 => o.op(&format!("{}addmany {}", rp, show_nats(self.hashes(r, 3)))),
            _ => {
                // filled and emptied again
                o.op(&format!("{}add {} 1", rp, self.hash(r)));
                if r.chance(1, 2) {
                    o.op(&format!("{}md5", rp));
                }
                o.op(&format!("{}clear", rp));
            }
        }
        if r.chance(1, 4) {
            o.op(&format!("{}md5", rp));
        }
        // the source's digest: cached through one of the routes, or not
        match r.below(9) {
            0..=1 => {}
            2..=3 => o.op(&format!("{}md5", sp)),
            4 => o.op(&format!("{}clone", sp)),
            5 => o.op(&format!("{}serde", sp)),
            6 => o.op(if r.chance(1, 2) { "eq" } else { "req" }),
            7 => o.op(&format!("{}jmd5", sp)),
            _ => o.op(&format!("{}{}", sp, if self.tree { "md5" } else { "cmd5" })),
        }
        let m = match r.below(8) {
            0..=5 => {
                if c_api {
                    "cmerge"
                } else {
                    "merge"
                }
            }
            _ => {
                if c_api {
                    "caddfrom"
                } else {
                    "addfrom"
                }
            }
        };
        o.op(&format!("{}{}", rp, m));
        match r.below(8) {
            0..=2 => o.op(&format!("{}md5", rp)),
            3 => o.op(&format!("{}{}", rp, if self.tree { "md5" } else { "cmd5" })),
            4 => o.op(&format!("{}jmd5", rp)),
            5 => o.op(&format!("{}clone", rp)),
            6 => o.op("eq"),
            _ => o.op("req"),
        }
        if r.chance(1, 2) {
            o.op(if r.chance(1, 2) { "eq" } else { "req" });
        }
    }
    fn observer(&self, r: &mut Rng, o: &mut Out, pfx: &str) {
        match r.below(14) {
            13 => o.op(&format!("{}jmd5", pfx)),
            0..=5 => o.op(&format!("{}md5", pfx)),
            6..=7 => {
                if self.tree {
                    o.op(&format!("{}md5", pfx))
                } else {
                    o.op(&format!("{}cmd5", pfx))
                }
            }
            8 => o.op(&format!("{}clone", pfx)),
            9 => o.op(&format!("{}copy", pfx)),
            10 => o.op("req"),
            _ => o.op("eq"),
        }
    }
}

/// `regs` case: 2–5 live sketches of either type.  Copies (`Clone` directly / inside a `Signature` /
/// through the C API, the serde round trip, the `From` conversions of a clone, by reference and
/// through `signature_first_mh`) land in another register and BOTH stay alive; copies of copies;
/// copies taken before any digest exists and after; any register is mutated at any time and all of
/// them are observed in varying order.  Nothing is ever observed as a side effect of copying (`dup`,
/// `rserde`, `rconv` answer hashes, not digests), so "copy, mutate one, ask both" happens with no
/// digest in between.
fn gen_regs(r: &mut Rng, o: &mut Out, pool: [u64; 8]) {
    let scaleds: [u64; 6] = [1, 2, 3, 4, 5, 8];
    let (scaled, num) = match r.below(10) {
        0..=4 => (*r.pick(&scaleds), 0u64),
        5..=8 => (0, r.range(2, 8)),
        _ => (*r.pick(&scaleds), r.range(2, 8)),
    };
    let mol = *r.pick(&["dna", "dna", "dna", "dna", "dna", "protein", "dayhoff", "hp"]);
    let ks: [u32; 4] = if mol == "dna" { [21, 31, 51, 7] } else { [21, 30, 33, 57] };
    let k = *r.pick(&ks);
    let n = *r.pick(&[2usize, 3, 3, 3, 4, 4, 4, 5]);
    let uniform = r.chance(3, 5);
    let t0 = r.chance(1, 2);
    let mut types: Vec<bool> = (0..n).map(|_| if uniform { t0 } else { r.chance(1, 2) }).collect();
    let track0 = r.chance(1, 2);
    let descr: Vec<String> = (0..n)
        .map(|i| {
            let tr = if r.chance(4, 5) { track0 } else { !track0 };
            format!("{}{}", if types[i] { "t" } else { "v" }, tr as u8)
        })
        .collect();
    let mut line =
        format!("regs num={} scaled={} mh={} k={} regs={}", num, scaled, max_hash_for_scaled(scaled), k, descr.join(","));
    if mol != "dna" {
        line += &format!(" mol={}", mol);
    }
    o.case(&line);
    let g = |tree: bool| Gen { tree, protein: mol != "dna", k, ko: k, pool };
    let other = |r: &mut Rng, i: usize| -> usize {
        let j = r.below(n as u64 - 1) as usize;
        if j >= i {
            j + 1
        } else {
            j
        }
    };
    // an operand of the same type when there is one
    let operand = |r: &mut Rng, types: &[bool], i: usize| -> usize {
        let same: Vec<usize> = (0..n).filter(|&j| j != i && types[j] == types[i]).collect();
        if same.is_empty() || r.chance(1, 10) {
            other(r, i)
        } else {
            *r.pick(&same)
        }
    };
    let observe = |r: &mut Rng, o: &mut Out, types: &[bool], i: usize| {
        let j = operand(r, types, i);
        match r.below(12) {
            0..=5 => o.op(&format!("r {} {} md5", i, j)),
            6..=7 => o.op(&format!("r {} {} {}", i, j, if types[i] { "md5" } else { "cmd5" })),
            8 => o.op(&format!("r {} {} jmd5", i, j)),
            9..=10 if types[i] == types[j] => {
                if r.chance(1, 2) {
                    o.op(&format!("req {} {}", i, j))
                } else {
                    o.op(&format!("req {} {}", j, i))
                }
            }
            _ => o.op(&format!("r {} {} md5", i, j)),
        }
    };
    let observe_all = |r: &mut Rng, o: &mut Out, types: &[bool]| {
        let mut order: Vec<usize> = (0..n).collect();
        for a in (1..n).rev() {
            let b = r.below(a as u64 + 1) as usize;
            order.swap(a, b);
        }
        for i in order {
            observe(r, o, types, i);
        }
    };
    let mutate = |r: &mut Rng, o: &mut Out, types: &[bool], i: usize| {
        let j = operand(r, types, i);
        let m = loop {
            let (m, _) = g(types[i]).mutator(r, false);
            let w = m.split(' ').next().unwrap();
            if types[i] == types[j] || !BINARY.contains(&w) {
                break m;
            }
        };
        o.op(&format!("r {} {} {}", i, j, m));
    };
    // prelude: one or two registers get contents; a digest exists before the first copy or not
    let first = r.below(n as u64) as usize;
    for _ in 0..r.range(1, 3) {
        let hs: Vec<u64> = (0..r.range(1, 6)).map(|_| *r.pick(&pool)).collect();
        let j = other(r, first);
        match r.below(4) {
            0 => o.op(&format!("r {} {} add {} 1", first, j, hs[0])),
            1 if !types[first] => o.op(&format!("r {} {} caddmany {}", first, j, show_nats(hs))),
            _ => o.op(&format!("r {} {} addmany {}", first, j, show_nats(hs))),
        }
    }
    if r.chance(1, 3) {
        observe(r, o, &types, first);
    }
    let mut src = first;
    for _ in 0..r.range(4, 24) {
        match r.below(100) {
            // a copy of some register into another one
            0..=24 => {
                let i = if r.chance(1, 2) { src } else { r.below(n as u64) as usize };
                let j = other(r, i);
                match r.below(14) {
                    0..=3 => {
                        o.op(&format!("dup {} {} c", i, j));
                        types[j] = types[i];
                    }
                    4..=5 => {
                        o.op(&format!("dup {} {} sig", i, j));
                        types[j] = types[i];
                    }
                    6 if !types[i] => {
                        o.op(&format!("dup {} {} ffi", i, j));
                        types[j] = types[i];
                    }
                    7 if types[i] == types[j] => o.op(&format!("r {} {} copy", i, j)),
                    8..=9 => {
                        o.op(&format!("rserde {} {}", i, j));
                        types[j] = types[i];
                    }
                    10 => {
                        o.op(&format!("rconv {} {} clone", i, j));
                        types[j] = !types[i];
                    }
                    11 if types[i] => {
                        o.op(&format!("rconv {} {} {}", i, j, if r.chance(1, 2) { "ref" } else { "ffi" }));
                        types[j] = false;
                    }
                    12 => {
                        o.op(&format!("rconvi {}", i));
                        types[i] = !types[i];
                    }
                    _ => {
                        o.op(&format!("dup {} {} c", i, j));
                        types[j] = types[i];
                    }
                }
                // the next ops prefer the pair just made
                src = if r.chance(1, 2) { i } else { j };
            }
            25..=64 => {
                let i = if r.chance(1, 2) { src } else { r.below(n as u64) as usize };
                mutate(r, o, &types, i);
            }
            65..=89 => {
                let i = if r.chance(1, 3) { src } else { r.below(n as u64) as usize };
                observe(r, o, &types, i);
            }
            90..=92 => {
                // the register is replaced by its own clone (the original is dropped)
                let i = r.below(n as u64) as usize;
                let j = other(r, i);
                o.op(&format!("r {} {} clone", i, j));
            }
            _ => observe_all(r, o, &types),
        }
    }
    // every live sketch is asked at the end, in a random order, then compared pairwise
    observe_all(r, o, &types);
    if r.chance(1, 2) {
        let i = r.below(n as u64) as usize;
        let j = operand(r, &types, i);
        if types[i] == types[j] {
            o.op(&format!("req {} {}", i, j));
        }
    }
}

fn gen(a: &Args) {
    let mut r = Rng::new(a.seed);
    let mut o = Out::new();
    let ncases = if a.cases > 0 {
        a.cases
    } else if a.tier == "thorough" {
        150_000
    } else {
        10_000
    };
    let scaleds: [u64; 6] = [1, 2, 3, 4, 5, 8];
    for _ in 0..ncases {
        if r.chance(3, 10) {
            let mut pool = [0u64; 8];
            for p in pool.iter_mut() {
                *p = pick_hash(&mut r);
            }
            gen_regs(&mut r, &mut o, pool);
            continue;
        }
        let mut tree = r.chance(1, 2);
        // bounded by a ceiling, by a size, or by both (a fifth of the cases)
        let (scaled, num) = match r.below(10) {
            0..=3 => (*r.pick(&scaleds), 0u64),
            4..=7 => (0, r.range(1, 6)),
            _ => (*r.pick(&scaleds), r.range(1, 6)),
        };
        // the second sketch has its own size bound half of the time (merge / add_from / remove_from /
        // inflate / == between sketches of different `num` are all accepted by the code)
        let onum = if num != 0 {
            match r.below(20) {
                0..=9 => num,
                10 => 0,
                11..=14 => r.range(1, num),
                _ => r.range(num, 9),
            }
        } else if r.chance(1, 5) {
            r.range(1, 6)
        } else {
            0
        };
        let mh = max_hash_for_scaled(scaled);
        let track = r.chance(1, 2);
        let otrack = if r.chance(7, 10) { track } else { !track };
        let mol = *r.pick(&["dna", "dna", "dna", "dna", "dna", "protein", "dayhoff", "hp"]);
        let ks: [u32; 4] = if mol == "dna" { [21, 31, 51, 7] } else { [21, 30, 33, 57] };
        let k = *r.pick(&ks);
        // "ksize differs" cases: the two sketches are built in step so that they hold the same hashes
        let kdiff = r.chance(1, 6);
        let ko = if kdiff {
            loop {
                let x = *r.pick(&ks);
                if x != k {
                    break x;
                }
            }
        } else {
            k
        };
        let mut line = format!(
            "{} num={} scaled={} mh={} track={} otrack={} k={}",
            if tree { "tree" } else { "vec" },
            num,
            scaled,
            mh,
            track as u8,
            otrack as u8,
            k
        );
        if ko != k {
            line += &format!(" ok={}", ko);
        }
        if onum != num {
            line += &format!(" onum={}", onum);
        }
        if mol != "dna" {
            line += &format!(" mol={}", mol);
        }
        o.case(&line);
        let mut g = Gen { tree, protein: mol != "dna", k, ko, pool: [0u64; 8] };
        for p in g.pool.iter_mut() {
            *p = pick_hash(&mut r);
        }
        if !kdiff && r.chance(1, 4) {
            g.merge_prelude(&mut r, &mut o);
        }
        let nops = r.range(1, if kdiff { 12 } else { 26 });
        for _ in 0..nops {
            if r.chance(1, 60) {
                // both sketches to the other type
                if tree && r.chance(1, 2) {
                    o.op("convr");
                } else {
                    o.op("conv");
                }
                tree = !tree;
                g.tree = tree;
                o.op(if r.chance(1, 2) { "md5" } else { "o.md5" });
                continue;
            }
            if kdiff {
                // the same content-only mutator on both sides (explicit hashes: the k-mers of a
                // sequence depend on ksize), then compare with none / one / both digests cached
                let (m, _) = loop {
                    let x = g.mutator(&mut r, false);
                    let w = x.0.split(' ').next().unwrap().to_string();
                    if ![
                        "seq", "cseq", "sigseq", "prot", "cprot", "sigprot", "merge", "cmerge", "inflate", "addfrom", "caddfrom", "rmfrom",
                        "crmfrom", "down", "downmh", "downmv",
                    ]
                    .contains(&w.as_str())
                    {
                        break x;
                    }
                };
                let both = r.chance(9, 10);
                if r.chance(1, 2) {
                    o.op(&m);
                    if both {
                        o.op(&format!("o.{}", m));
                    }
                } else {
                    if both {
                        o.op(&format!("o.{}", m));
                    }
                    o.op(&m);
                }
                match r.below(6) {
                    0 => o.op("md5"),
                    1 => o.op("o.md5"),
                    2 => {
                        o.op("md5");
                        o.op("o.md5")
                    }
                    3 => o.op(if tree { "o.clone" } else { "cmd5" }),
                    _ => {}
                }
                o.op(if r.chance(1, 2) { "eq" } else { "req" });
                if r.chance(1, 4) {
                    o.op(if r.chance(1, 2) { "eq" } else { "req" });
                }
                continue;
            }
            let on_o = r.chance(1, 4);
            let pfx = if on_o { "o." } else { "" };
            // an observer before the mutator, most of the time
            if r.chance(3, 4) {
                g.observer(&mut r, &mut o, pfx);
            }
            let (m, must) = g.mutator(&mut r, on_o);
            o.op(&format!("{}{}", pfx, m));
            // … and right after it
            if must || r.chance(1, 3) {
                if r.chance(4, 5) {
                    let ob = match r.below(8) {
                        0..=1 if !tree => "cmd5",
                        2 => "jmd5",
                        _ => "md5",
                    };
                    o.op(&format!("{}{}", pfx, ob));
                } else {
                    g.observer(&mut r, &mut o, pfx);
                }
            }
        }
        // the final state is always observed
        o.op("md5");
        o.op("o.md5");
        o.op("eq");
    }
}

fn main() {
    let a = args();
    match a.mode.as_str() {
        "gen" => gen(&a),
        "exec" => exec_loop(
            || St {
                main: None,
                other: None,
                regs: vec![],
            },
            step,
        ),
        _ => panic!("mode"),
    }
}
