//! C12 harness (stub).
use verif_harness::*;

fn gen(_a: &Args) {
    let mut o = Out::new();
    o.case("stub");
}

fn step(_: &mut (), ws: &[&str]) -> String {
    match ws[0] {
        "case" => "ok".into(),
        _ => "bad-op".into(),
    }
}

fn main() {
    let a = args();
    match a.mode.as_str() {
        "gen" => gen(&a),
        "exec" => exec_loop(|| (), step),
        _ => panic!("mode"),
    }
}
