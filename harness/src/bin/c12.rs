//! C12: manifests describe their sketches faithfully and round-trip through CSV.
//!
//! Request lines:
//!   rec <loc> <md5> <md5short> <ksize> <moltype> <num> <scaled> <n_hashes> <abund> <name> <filename>
//!        append a raw record to the case's manifest (strings in hex, `-` = empty)
//!   write                 bytes of Manifest::to_writer (hex)
//!   rt                    to_writer, then from_reader: the records read back
//!   read <hex>            Manifest::from_reader on these bytes
//!   readm <hex>           Manifest::from_reader on these bytes; on success the records read REPLACE the
//!                         case's manifest (what isect / cisect / superset index into from then on)
//!   isect <A> <B>         (rows A).intersect_manifest(rows B), index lists into the case's manifest
//!   cisect <A> <B>        Collection::new(rows A, empty storage).intersect_manifest(rows B): its manifest
//!   superset <A> <B>      Collection::new(rows A, ..).check_superset(&Collection::new(rows B, ..)):
//!                         `ok <n>` or `err <Variant>`
//!   mcsv <hex> <map>      (sigs cases) a CSV document describing sketches of the case, spelled the way
//!                         other tools write it (molecule type in any letter case, booleans
//!                         0/1/true/False/TRUE, +/0-prefixed integers, permuted and extra columns, quoted
//!                         fields); row p describes the map[p]-th sketch of the case (flat order);
//!                         locations are signatures/d<i>.sig.  Answer: the records read.
//!   lookup i csv          Collection::new(Manifest::from_reader(that document), MemStorage holding the
//!                         signatures under those locations).sig_for_dataset(i)
//!   lookup i csvzip       a zip with one entry per signature and THAT document as
//!                         SOURMASH-MANIFEST.csv, Collection::from_zipfile, sig_for_dataset(i)
//!   sig <name|~> <filename|~> ; sk <ksize> <mol> <num> <scaled> <tracked> <v|t> <mins> <abunds> <md5>
//!   fromsig i <loc>       Record::from_sig(sig i, loc)
//!   lookup i              Collection::from_sigs(all sigs).sig_for_dataset(i)
//!   lookup i <backend>    the same signatures placed in another storage, then sig_for_dataset(i):
//!                           fs   one .sig file per signature, Collection::from_paths
//!                           zip  a zip built here (stored entries signatures/d<i>.sig + SOURMASH-MANIFEST.csv
//!                                from Record::from_sig), Collection::from_zipfile
//!                           rdb  on-disk RevIndex over the fs collection, internalize_storage(), the
//!                                .sig files deleted, Collection::from_rocksdb
//!                           fsm  ONE .sig file holding all signatures, Collection::from_paths
//!                         (locations are reported as the signature's position, as for memory storage)
//!   zipcheck <path>       Collection::from_zipfile(/repo/tests/test-data/<path>): every row equals
//!                         Record::from_sig of the one sketch sig_for_dataset returns
//!
//! Histories on collections (`hist` cases; slots 0..2 hold collections, `none` when empty):
//!   hnew <be>             slot 0 := the case's signatures as a collection over mem | fs | zip | rdb (as
//!                         for `lookup`); its manifest is the ORIGINAL manifest of the case; other slots cleared
//!   hclone a b            slot b := slot a.clone()
//!   hisect a <rows>       slot a.intersect_manifest(those rows of the original manifest): the rows left
//!   hsel a SEL            slot a := slot a.select(SEL): the rows left   (SEL = ksize mol abund num scaled, `-` = absent)
//!   hswap a               the same manifest over a NEW storage object with the same content
//!                         (CollectionSet::set_storage_unchecked when the collection is one, Collection::new otherwise)
//!   hget a i | hfr a i    slot a.sig_for_dataset(i) / sig_from_record(&manifest[i]): `<loc>=<sketches>`
//!   hlazy a i             record i -> SigStore::builder().filename(internal_location).storage(collection's
//!                         storage) (not read yet) -> select(Selection::from_record) (a refused select is
//!                         retried after data()) -> data(): `<loc>=<sketches>`
//!   hrec a i              slot a.record_for_dataset(i)
//!   hiter a               slot a.iter(): `<idx>:<loc>:<md5>` per row
//! Every answer must describe the CURRENT manifest of that slot, whatever was looked up before and
//! whatever happened to its clones.
//!
//! Built with `--no-default-features` (sourmash with its default feature set: the serial cfg variants
//! of Collection::from_sigs and Manifest::from(&[PathBuf]); no RocksDB) `lookup i rdb` answers `NA`.
use sourmash::collection::Collection;
use sourmash::collection::CollectionSet;
#[cfg(feature = "disk")]
use sourmash::index::revindex::{RevIndex, RevIndexOps};
use sourmash::encodings::HashFunctions;
use sourmash::manifest::{Manifest, Record};
use sourmash::signature::{Signature, SigsTrait};
use sourmash::sketch::minhash::{max_hash_for_scaled, KmerMinHash, KmerMinHashBTree};
use sourmash::sketch::Sketch;
use sourmash::prelude::*;
use sourmash::selection::Selection;
use sourmash::storage::{FSStorage, InnerStorage, MemStorage, SigStore, Storage, ZipStorage};
use verif_harness::*;

const SEED0: u64 = 1000;
const MOLS: [&str; 4] = ["dna", "protein", "dayhoff", "hp"];

fn hf(m: &str) -> HashFunctions {
    match m {
        "dna" => HashFunctions::Murmur64Dna,
        "protein" => HashFunctions::Murmur64Protein,
        "dayhoff" => HashFunctions::Murmur64Dayhoff,
        "hp" => HashFunctions::Murmur64Hp,
        _ => panic!("mol"),
    }
}
fn mol_name(h: &HashFunctions) -> &'static str {
    match h {
        HashFunctions::Murmur64Dna => "dna",
        HashFunctions::Murmur64Protein => "protein",
        HashFunctions::Murmur64Dayhoff => "dayhoff",
        HashFunctions::Murmur64Hp => "hp",
        _ => "custom",
    }
}

fn s_of(hexs: &str) -> String {
    String::from_utf8(unhex(hexs)).unwrap()
}

/// a `Record` with arbitrary field values (the struct's fields are private; serde is the way in)
fn make_record(ws: &[&str]) -> Record {
    let v = serde_json::json!({
        "internal_location": s_of(ws[0]),
        "md5": s_of(ws[1]),
        "md5short": s_of(ws[2]),
        "ksize": ws[3].parse::<u32>().unwrap(),
        "moltype": s_of(ws[4]),
        "num": ws[5].parse::<u32>().unwrap(),
        "scaled": ws[6].parse::<u64>().unwrap(),
        "n_hashes": ws[7].parse::<u64>().unwrap(),
        "with_abundance": ws[8],
        "name": s_of(ws[9]),
        "filename": s_of(ws[10]),
    });
    serde_json::from_value(v).unwrap()
}

/// every field of a record, through serde again (md5short has no getter)
fn show_record(r: &Record) -> String {
    let v = serde_json::to_value(r).unwrap();
    let s = |k: &str| hex(v[k].as_str().unwrap().as_bytes());
    format!(
        "{}:{}:{}:{}:{}:{}:{}:{}:{}:{}:{}",
        s("internal_location"),
        s("md5"),
        s("md5short"),
        v["ksize"].as_u64().unwrap(),
        s("moltype"),
        v["num"].as_u64().unwrap(),
        v["scaled"].as_u64().unwrap(),
        v["n_hashes"].as_u64().unwrap(),
        v["with_abundance"].as_i64().unwrap(),
        s("name"),
        s("filename"),
    )
}

fn show_records<'a, I: IntoIterator<Item = &'a Record>>(rs: I) -> String {
    let v: Vec<String> = rs.into_iter().map(show_record).collect();
    if v.is_empty() {
        "-".into()
    } else {
        v.join("|")
    }
}

// ------------------------------------------------------------------ generator

const ALPHA: [&str; 16] = ["a", "b", "#", ",", "\"", "\n", "\r", " ", "é", "/", ".", "'", "\t", "\\", "0", "Z"];

fn gen_string(r: &mut Rng) -> String {
    let mut s = String::new();
    match r.below(10) {
        0 => {}
        1 => s.push('#'),
        2 => {
            s.push('#');
            for _ in 0..r.range(1, 4) {
                s.push_str(*r.pick(&ALPHA));
            }
        }
        3 => {
            for _ in 0..r.range(1, 3) {
                s.push_str(*r.pick(&["a", "b", "x.sig", "/"]));
            }
        }
        _ => {
            for _ in 0..r.range(1, 6) {
                s.push_str(*r.pick(&ALPHA));
            }
        }
    }
    s
}

fn gen_md5(r: &mut Rng) -> String {
    if r.chance(1, 8) {
        gen_string(r)
    } else {
        format!("{:016x}{:016x}", r.next(), r.next())
    }
}

fn gen_rec(r: &mut Rng) -> Vec<String> {
    let md5 = gen_md5(r);
    let md5short: String = if r.chance(1, 6) { gen_string(r) } else { md5.chars().take(8).collect() };
    let u32s = [0u64, 1, 21, 31, 500, 4294967295];
    let u64s = [0u64, 1, 1000, 4294967296, u64::MAX];
    let molt = match r.below(8) {
        0 => "dna".to_string(),
        1 => "Protein".to_string(),
        2 => gen_string(r),
        3 => "protein".into(),
        4 => "dayhoff".into(),
        5 => "hp".into(),
        _ => "DNA".into(),
    };
    vec![
        hex(gen_string(r).as_bytes()),
        hex(md5.as_bytes()),
        hex(md5short.as_bytes()),
        (if r.chance(1, 2) { *r.pick(&u32s) } else { r.bits(32) }).to_string(),
        hex(molt.as_bytes()),
        (if r.chance(1, 2) { *r.pick(&u32s) } else { r.bits(32) }).to_string(),
        (if r.chance(1, 2) { *r.pick(&u64s) } else { r.bits(64) }).to_string(),
        (if r.chance(1, 2) { *r.pick(&u64s) } else { r.bits(64) }).to_string(),
        r.below(2).to_string(),
        hex(gen_string(r).as_bytes()),
        hex(gen_string(r).as_bytes()),
    ]
}

const HEADER: [&str; 11] = [
    "internal_location", "md5", "md5short", "ksize", "moltype", "num", "scaled", "n_hashes", "with_abundance",
    "name", "filename",
];

/// a CSV text for these records written by hand, in one of the dialects the reader accepts
/// (or with one defect it must refuse)
fn render_variant(r: &mut Rng, recs: &[Vec<String>]) -> Vec<u8> {
    let term: &[u8] = match r.below(4) {
        0 => b"\r\n",
        1 => b"\r",
        _ => b"\n",
    };
    let quote_all = r.chance(1, 3);
    let defect = if r.chance(1, 4) { r.range(1, 8) } else { 0 };
    // column order
    let mut order: Vec<usize> = (0..11).collect();
    if r.chance(1, 3) {
        for i in (1..11).rev() {
            let j = r.below(i as u64 + 1) as usize;
            order.swap(i, j);
        }
    }
    let extra_col = r.chance(1, 5);
    let mut out: Vec<u8> = vec![];
    if r.chance(3, 4) {
        out.extend(b"# SOURMASH-MANIFEST-VERSION: 1.0\n");
    }
    if r.chance(1, 4) {
        out.extend(b"#another, \"comment\r with CR\n");
    }
    let put = |out: &mut Vec<u8>, f: &[u8], force: bool| {
        let special = f.iter().any(|b| b",\"\r\n#".contains(b));
        if special || force {
            out.push(b'"');
            for &b in f {
                if b == b'"' {
                    out.push(b'"');
                }
                out.push(b);
            }
            out.push(b'"');
        } else {
            out.extend(f);
        }
    };
    // header
    let mut names: Vec<String> = order.iter().map(|&i| HEADER[i].to_string()).collect();
    if extra_col {
        names.insert(r.below(names.len() as u64 + 1) as usize, "extra".into());
    }
    let extra_pos = names.iter().position(|n| n == "extra");
    if defect == 1 {
        let i = r.below(names.len() as u64) as usize;
        names[i] = "nme".into(); // a column is missing
    }
    if defect == 2 {
        names.push("name".into()); // duplicated column
    }
    for (i, n) in names.iter().enumerate() {
        if i > 0 {
            out.push(b',');
        }
        put(&mut out, n.as_bytes(), quote_all && r.chance(1, 2));
    }
    out.extend(term);
    for (ri, rec) in recs.iter().enumerate() {
        if r.chance(1, 6) {
            out.extend(term); // blank line
        }
        if r.chance(1, 8) {
            out.extend(b"#x,y\n");
        }
        let mut fields: Vec<Vec<u8>> = order
            .iter()
            .map(|&i| match i {
                3 | 5 | 6 | 7 | 8 => rec[i].as_bytes().to_vec(),
                _ => unhex(&rec[i]),
            })
            .collect();
        // dialect of the typed fields
        for (pos, &i) in order.iter().enumerate() {
            if i == 8 && r.chance(1, 3) {
                let t = if rec[8] == "1" { *r.pick(&["true", "True", "TRUE", "tRuE"]) } else { *r.pick(&["false", "False", "FALSE"]) };
                fields[pos] = t.as_bytes().to_vec();
            }
            if (i == 3 || i == 5 || i == 6 || i == 7) && r.chance(1, 6) {
                let mut v = if r.chance(1, 2) { b"+".to_vec() } else { b"00".to_vec() };
                v.extend(rec[i].as_bytes());
                fields[pos] = v;
            }
        }
        if ri == 0 {
            match defect {
                3 => fields[order.iter().position(|&i| i == 8).unwrap()] = b"yes".to_vec(),
                4 => fields[order.iter().position(|&i| i == 3).unwrap()] = b"4294967296".to_vec(),
                5 => fields[order.iter().position(|&i| i == 5).unwrap()] = b"".to_vec(),
                6 => fields[order.iter().position(|&i| i == 6).unwrap()] = b"-1".to_vec(),
                7 => {
                    fields.pop(); // a short row
                }
                8 => fields[order.iter().position(|&i| i == 7).unwrap()] = b"18446744073709551616".to_vec(),
                _ => {}
            }
        }
        if let Some(p) = extra_pos {
            let p = p.min(fields.len());
            fields.insert(p, gen_string(r).into_bytes());
        }
        if defect == 2 {
            fields.push(b"dup".to_vec());
        }
        for (i, f) in fields.iter().enumerate() {
            if i > 0 {
                out.push(b',');
            }
            put(&mut out, f, quote_all);
        }
        if ri + 1 < recs.len() || r.chance(3, 4) {
            out.extend(term);
        }
    }
    out
}

#[derive(Clone)]
struct GSk {
    ksize: u64,
    mol: &'static str,
    num: u64,
    scaled: u64,
    tracked: bool,
    cont: char,
    mins: Vec<u64>,
    abunds: Vec<u64>,
}
impl GSk {
    fn words(&self) -> String {
        format!(
            "{} {} {} {} {} {} {} {}",
            self.ksize,
            self.mol,
            self.num,
            self.scaled,
            self.tracked as u8,
            self.cont,
            show_nats(self.mins.iter().cloned()),
            show_nats(self.abunds.iter().cloned())
        )
    }
}

fn gen_sketch(r: &mut Rng, res: u64, mol: &'static str, tracked: bool) -> GSk {
    let ksize = if mol == "dna" { res } else { res * 3 };
    let (num, scaled) = match r.below(10) {
        0..=4 => (0, *r.pick(&[1u64, 2, 100, 1000, 2000, 1 << 31])),
        5..=8 => (*r.pick(&[1u64, 3, 500]), 0),
        _ => (*r.pick(&[3u64, 500]), *r.pick(&[1u64, 1000])),
    };
    let mh = max_hash_for_scaled(scaled);
    let mut mins: Vec<u64> = (0..r.below(6)).map(|_| if r.chance(1, 2) { r.range(0, 50) } else { r.bits(64) }).collect();
    mins.sort();
    mins.dedup();
    if scaled != 0 {
        mins.retain(|&h| h <= mh);
    }
    if num != 0 {
        mins.truncate(num as usize);
    }
    let abunds = if tracked { mins.iter().map(|_| r.range(1, 9)).collect() } else { vec![] };
    GSk { ksize, mol, num, scaled, tracked, cont: if r.chance(1, 2) { 'v' } else { 't' }, mins, abunds }
}


fn respell_case(r: &mut Rng, s: &str) -> String {
    match r.below(4) {
        0 => s.to_string(),
        1 => s.to_uppercase(),
        2 => s.to_lowercase(),
        _ => s.chars().map(|c| if r.chance(1, 2) { c.to_ascii_uppercase() } else { c.to_ascii_lowercase() }).collect(),
    }
}

/// the CSV text of `recs` (fields in HEADER order as text, canonical spelling) in a dialect the
/// reader accepts: respelled molecule types and booleans, prefixed integers, permuted / extra
/// columns, quoting, CRLF
fn render_respelled(r: &mut Rng, recs: &[Vec<String>]) -> Vec<u8> {
    let term: &[u8] = if r.chance(1, 4) { b"\r\n" } else { b"\n" };
    let quote_all = r.chance(1, 4);
    let mut order: Vec<usize> = (0..11).collect();
    if r.chance(1, 2) {
        for i in (1..11).rev() {
            let j = r.below(i as u64 + 1) as usize;
            order.swap(i, j);
        }
    }
    let mut names: Vec<String> = order.iter().map(|&i| HEADER[i].to_string()).collect();
    let extra_pos = if r.chance(1, 3) { Some(r.below(names.len() as u64 + 1) as usize) } else { None };
    if let Some(p) = extra_pos {
        names.insert(p, "seed".into());
    }
    let bool_style = r.below(6);
    let mut out: Vec<u8> = vec![];
    if r.chance(3, 4) {
        out.extend(b"# SOURMASH-MANIFEST-VERSION: 1.0\n");
    }
    let put = |out: &mut Vec<u8>, f: &[u8], force: bool| {
        let special = f.iter().any(|b| b",\"\r\n#".contains(b));
        if special || force {
            out.push(b'"');
            for &b in f {
                if b == b'"' {
                    out.push(b'"');
                }
                out.push(b);
            }
            out.push(b'"');
        } else {
            out.extend(f);
        }
    };
    for (i, n) in names.iter().enumerate() {
        if i > 0 {
            out.push(b',');
        }
        put(&mut out, n.as_bytes(), quote_all);
    }
    out.extend(term);
    for rec in recs {
        let mut fields: Vec<String> = order
            .iter()
            .map(|&i| match i {
                4 => respell_case(r, &rec[4]),
                8 => {
                    let t = rec[8] == "1";
                    match if r.chance(1, 5) { r.below(6) } else { bool_style } {
                        0 | 1 => rec[8].clone(),
                        2 => (if t { "true" } else { "false" }).into(),
                        3 => (if t { "True" } else { "False" }).into(),
                        4 => (if t { "TRUE" } else { "FALSE" }).into(),
                        _ => respell_case(r, if t { "true" } else { "false" }),
                    }
                }
                3 | 5 | 6 | 7 if r.chance(1, 6) => format!("{}{}", *r.pick(&["+", "0", "00", "+0"]), rec[i]),
                _ => rec[i].clone(),
            })
            .collect();
        if let Some(p) = extra_pos {
            fields.insert(p, (*r.pick(&["42", "", "x y", "DNA"])).to_string());
        }
        for (i, f) in fields.iter().enumerate() {
            if i > 0 {
                out.push(b',');
            }
            put(&mut out, f.as_bytes(), quote_all);
        }
        out.extend(term);
    }
    out
}

/// the `mcsv` line of a sigs case (see the head of the file); `lines` = its `sig` / `sk` lines
fn gen_mcsv(r: &mut Rng, lines: &[String]) -> (String, u64) {
    let mut st = St::default();
    for l in lines {
        let ws: Vec<&str> = l.split(' ').collect();
        step(&mut st, &ws);
    }
    let base: Vec<Vec<String>> = st
        .sigs
        .iter()
        .enumerate()
        .flat_map(|(i, sig)| Record::from_sig(sig, &format!("signatures/d{}.sig", i)))
        .map(|rec| {
            vec![
                rec.internal_location().to_string(),
                rec.md5().clone(),
                rec.md5()[0..8].to_string(),
                rec.ksize().to_string(),
                rec.moltype().to_string(),
                rec.num().to_string(),
                rec.scaled().to_string(),
                rec.n_hashes().to_string(),
                (rec.with_abundance() as u8).to_string(),
                rec.name().clone(),
                rec.filename().clone(),
            ]
        })
        .collect();
    let n = base.len() as u64;
    let mut map: Vec<u64> = (0..n).collect();
    if n > 0 && r.chance(1, 3) {
        map = (0..r.range(1, n + 2)).map(|_| r.below(n)).collect();
    }
    let recs: Vec<Vec<String>> = map.iter().map(|&i| base[i as usize].clone()).collect();
    (format!("mcsv {} {}", hex(&render_respelled(r, &recs)), show_nats(map.iter().cloned())), map.len() as u64)
}

/// a record (as `rec` words) that differs from `base` in column `c` and nowhere else; for the
/// molecule column the two also differ after lower-casing (records that differ in the letter case of
/// the molecule name only are EQUAL records: corpus/C12/known-moltype-case.ops)
fn vary_column(r: &mut Rng, base: &[String], c: usize) -> Vec<String> {
    let mut v = base.to_vec();
    let text = |h: &str| String::from_utf8(unhex(h)).unwrap();
    match c {
        0 | 1 | 2 | 9 | 10 => {
            let old = text(&base[c]);
            let new = match r.below(4) {
                0 => format!("{}x", old),
                1 if !old.is_empty() => old[..old.char_indices().last().unwrap().0].to_string(),
                2 => format!(" {}", old),
                _ => {
                    let g = gen_string(r);
                    if g == old { format!("{}#", old) } else { g }
                }
            };
            v[c] = hex(new.as_bytes());
        }
        4 => {
            let old = text(&base[4]).to_lowercase();
            let mut new = match r.below(3) {
                0 => gen_string(r),
                _ => (*r.pick(&["DNA", "protein", "dayhoff", "hp", "dna", "Protein"])).to_string(),
            };
            if new.to_lowercase() == old {
                new = if old == "hp" { "dayhoff".into() } else { "hp".into() };
            }
            v[4] = hex(new.as_bytes());
        }
        3 | 5 => {
            let old: u64 = base[c].parse().unwrap();
            v[c] = (match r.below(3) {
                0 => (old + 1) % (1 << 32),
                1 => (old + (1 << 32) - 1) % (1 << 32),
                _ => if old == 0 { 21 } else { 0 },
            })
            .to_string();
        }
        6 | 7 => {
            let old: u64 = base[c].parse().unwrap();
            v[c] = (match r.below(3) {
                0 => old.wrapping_add(1),
                1 => old.wrapping_sub(1),
                _ => if old == 0 { 1000 } else { 0 },
            })
            .to_string();
        }
        _ => v[8] = if base[8] == "1" { "0".into() } else { "1".into() },
    }
    v
}

fn gen(a: &Args) {
    let mut r = Rng::new(a.seed);
    let mut o = Out::new();
    let thorough = a.tier == "thorough";
    // stream 1: raw records through the CSV text
    let n1 = if a.cases > 0 { a.cases } else if thorough { 40_000 } else { 1500 };
    for _ in 0..n1 {
        o.case("csv");
        let n = match r.below(10) {
            0 => 0,
            1..=4 => 1,
            _ => r.range(2, 5),
        };
        let mut recs: Vec<Vec<String>> = vec![];
        for _ in 0..n {
            let mut rec = gen_rec(&mut r);
            // now and then the same row again under another location (equal modulo location)
            if !recs.is_empty() && r.chance(1, 5) {
                rec = r.pick(&recs).clone();
                if r.chance(2, 3) {
                    rec[0] = hex(gen_string(&mut r).as_bytes());
                }
                if r.chance(1, 4) {
                    rec[9] = hex(gen_string(&mut r).as_bytes());
                }
            }
            o.op(&format!("rec {}", rec.join(" ")));
            recs.push(rec);
        }
        o.op("write");
        o.op("rt");
        // the bytes the real writer produces, read back as such
        let m: Manifest = recs
            .iter()
            .map(|rec| make_record(&rec.iter().map(|s| s.as_str()).collect::<Vec<_>>()))
            .collect::<Vec<Record>>()
            .into();
        let mut buf = vec![];
        m.to_writer(&mut buf).unwrap();
        o.op(&format!("read {}", hex(&buf)));
        for _ in 0..2 {
            o.op(&format!("read {}", hex(&render_variant(&mut r, &recs))));
        }
        // raw reader states: an unescaped soup in place of one string field of the first row
        if n > 0 {
            let mut out: Vec<u8> = b"# SOURMASH-MANIFEST-VERSION: 1.0\n".to_vec();
            out.extend(HEADER.join(",").as_bytes());
            out.push(b'\n');
            let victim = *r.pick(&[0usize, 1, 4, 9, 10]);
            for (ri, rec) in recs.iter().enumerate() {
                for i in 0..11 {
                    if i > 0 {
                        out.push(b',');
                    }
                    let f: Vec<u8> = match i {
                        3 | 5 | 6 | 7 | 8 => rec[i].as_bytes().to_vec(),
                        _ => unhex(&rec[i]),
                    };
                    if ri == 0 && i == victim {
                        for _ in 0..r.below(6) {
                            out.extend(match r.below(12) {
                                0..=3 => "\"",
                                4 | 5 => "a",
                                6 => "#",
                                7 => " ",
                                8 => "\r",
                                9 => ",",
                                10 => "\n",
                                _ => "é",
                            }.as_bytes());
                        }
                    } else {
                        let special = f.iter().any(|b| b",\"\r\n#".contains(b));
                        if special {
                            out.push(b'"');
                            for &b in &f {
                                if b == b'"' {
                                    out.push(b'"');
                                }
                                out.push(b);
                            }
                            out.push(b'"');
                        } else {
                            out.extend(&f);
                        }
                    }
                }
                if ri + 1 < recs.len() || r.chance(1, 2) {
                    out.push(b'\n');
                }
            }
            o.op(&format!("read {}", hex(&out)));
        }
        if n > 0 {
            let pickn = |r: &mut Rng| -> Vec<u64> { (0..r.range(0, n)).map(|_| r.below(n)).collect() };
            for _ in 0..2 {
                let (x, y) = (pickn(&mut r), pickn(&mut r));
                o.op(&format!("isect {} {}", show_nats(x), show_nats(y)));
            }
            let (x, y) = (pickn(&mut r), pickn(&mut r));
            o.op(&format!("superset {} {}", show_nats(x), show_nats(y)));
            // the manifest as a document in another dialect, read, and the same questions asked of
            // the records read (a document with a defect is refused and leaves the manifest as it was)
            if r.chance(1, 2) {
                o.op(&format!("readm {}", hex(&render_variant(&mut r, &recs))));
                let (x, y) = (pickn(&mut r), pickn(&mut r));
                o.op(&format!("isect {} {}", show_nats(x), show_nats(y)));
                let (x, y) = (pickn(&mut r), pickn(&mut r));
                o.op(&format!("cisect {} {}", show_nats(x), show_nats(y)));
                let x = pickn(&mut r);
                let mut y = x.clone();
                if r.chance(1, 2) {
                    y.extend(pickn(&mut r));
                } else if !y.is_empty() && r.chance(1, 2) {
                    let i = r.below(y.len() as u64) as usize;
                    y[i] = r.below(n);
                }
                o.op(&format!("superset {} {}", show_nats(x), show_nats(y)));
            }
        }
    }
    // stream 1b: record equality column by column - a base record and, for every column in turn, a
    // record that differs from it in that column only (internal_location and the derived md5short
    // are the two columns equality must IGNORE, and so is the letter case of the molecule column)
    let n1b = if a.cases > 0 { a.cases / 10 + 1 } else if thorough { 3000 } else { 150 };
    for _ in 0..n1b {
        o.case("pairs");
        let mut base = gen_rec(&mut r);
        if r.chance(3, 4) {
            // what a manifest row usually looks like
            base[4] = hex((*r.pick(&["DNA", "protein", "dayhoff", "hp"])).as_bytes());
            base[3] = (*r.pick(&[21u64, 31, 7, 10])).to_string();
            let scaled = r.chance(1, 2);
            base[5] = if scaled { "0".into() } else { "500".into() };
            base[6] = if scaled { "1000".into() } else { "0".into() };
        }
        o.op(&format!("rec {}", base.join(" ")));
        for c in 0..11 {
            o.op(&format!("rec {}", vary_column(&mut r, &base, c).join(" ")));
        }
        // a thirteenth record: the base with only the LETTER CASE of the molecule column changed - the
        // same record (Record::moltype() is the only observer of that column and ignores the case)
        let mut twin = base.clone();
        let mol = String::from_utf8(unhex(&base[4])).unwrap();
        let flipped: String = mol
            .chars()
            .map(|c| if !r.chance(1, 3) { c } else if c.is_ascii_lowercase() { c.to_ascii_uppercase() } else { c.to_ascii_lowercase() })
            .collect();
        twin[4] = hex(flipped.as_bytes());
        twin[0] = hex(gen_string(&mut r).as_bytes());
        o.op(&format!("rec {}", twin.join(" ")));
        o.op("isect 0 12");
        o.op("isect 12 0");
        o.op("superset 0,12 12,0");
        o.op(&format!("cisect 12,{} 0", r.range(1, 11)));
        let all: Vec<u64> = (0..12).collect();
        for c in 1..12u64 {
            o.op(&format!("isect 0 {}", c));
            o.op(&format!("isect {} 0", c));
            o.op(&format!("superset 0 {}", c));
            if r.chance(1, 3) {
                o.op(&format!("superset 0,{} 0,{}", (c % 11) + 1, c));
            }
        }
        o.op(&format!("isect {} 0", show_nats(all.clone())));
        o.op(&format!("isect 0 {}", show_nats(all.clone())));
        o.op(&format!("cisect {} {}", show_nats(all.clone()), r.range(0, 11)));
        for _ in 0..3 {
            let pick = |r: &mut Rng| -> Vec<u64> { (0..r.range(0, 5)).map(|_| r.below(13)).collect() };
            let (x, y) = (pick(&mut r), pick(&mut r));
            o.op(&format!("isect {} {}", show_nats(x.clone()), show_nats(y.clone())));
            o.op(&format!("superset {} {}", show_nats(x), show_nats(y)));
        }
        o.op(&format!("superset {} {}", show_nats(all.clone()), show_nats(all.clone())));
    }
    // stream 2: records built from signatures, and the way back from a record to its sketch
    let n2 = if a.cases > 0 { a.cases } else if thorough { 20_000 } else { 900 };
    for c2 in 0..n2 {
        o.case("sigs");
        let nsig = r.range(1, 4);
        let mut total = 0;
        let mut nameless_multi = false;
        let mut case_lines: Vec<String> = vec![];
        for _ in 0..nsig {
            // pairwise different (residue ksize, molecule, abundance) inside a signature: the
            // look-up can tell the sketches apart (the residue is recorded as a known finding)
            let n = if r.chance(1, 12) { 0 } else { r.range(1, 4) };
            // a signature without name and filename takes its name from its single sketch's md5;
            // with any other number of sketches `name()` panics (and every look-up of the case with it)
            let none_name = if n == 1 { r.chance(1, 2) } else { r.chance(1, 10) };
            let name = if none_name { "~".to_string() } else { hex(gen_string(&mut r).as_bytes()) };
            let fname = if r.chance(1, 2) { "~".to_string() } else { hex(gen_string(&mut r).as_bytes()) };
            o.op(&format!("sig {} {}", name, fname));
            case_lines.push(format!("sig {} {}", name, fname));
            let mut seen: Vec<(u64, &str, bool)> = vec![];
            for _ in 0..n {
                let key = (*r.pick(&[7u64, 10, 21, 31]), *r.pick(&MOLS), r.chance(1, 2));
                if seen.contains(&key) {
                    continue;
                }
                seen.push(key);
                let g = gen_sketch(&mut r, key.0, key.1, key.2);
                let md5 = md5_of(&build_sketch(&format!("sk {}", g.words()).split(' ').collect::<Vec<_>>(), 0));
                o.op(&format!("sk {} {}", g.words(), md5));
                case_lines.push(format!("sk {} {}", g.words(), md5));
            }
            if name == "~" && fname == "~" && seen.len() != 1 {
                nameless_multi = true;
            }
            total += seen.len() as u64;
        }
        for i in 0..nsig {
            o.op(&format!("fromsig {} {}", i, hex(gen_string(&mut r).as_bytes())));
        }
        // from_sigs panics on such a signature: both sides say PANIC
        for i in 0..total {
            o.op(&format!("lookup {}", i));
        }
        // the collection described by a CSV document that other tools wrote (a third of the cases)
        if c2 % 3 == 1 && !nameless_multi && total > 0 {
            let (line, nrows) = gen_mcsv(&mut r, &case_lines);
            o.op(&line);
            for be in ["csv", "csvzip"] {
                for i in 0..nrows {
                    o.op(&format!("lookup {} {}", i, be));
                }
            }
        }
        if r.chance(1, 4) {
            o.op(&format!("lookup {}", total + r.below(2)));
        }
        // the same collection over filesystem and zip storage (a third of the cases); RocksDB storage
        // needs one ksize and molecule type throughout (stream 3) — here it mostly refuses
        if c2 % 3 == 0 {
            for be in ["fs", "zip"] {
                for i in 0..total {
                    o.op(&format!("lookup {} {}", i, be));
                }
                if r.chance(1, 4) {
                    o.op(&format!("lookup {} {}", total + r.below(2), be));
                }
            }
            if c2 % 30 == 0 {
                o.op("lookup 0 rdb");
            }
        }
    }
    // stream 3: collections that an on-disk index accepts (one residue ksize, one molecule type), every
    // record looked up in memory, filesystem, zip and RocksDB storage
    let n3 = if a.cases > 0 { a.cases / 20 + 1 } else if thorough { 800 } else { 40 };
    for _ in 0..n3 {
        o.case("stores");
        let res = *r.pick(&[7u64, 10, 21, 31]);
        let mol = *r.pick(&MOLS);
        let nsig = r.range(1, 6);
        let mut total = 0;
        for _ in 0..nsig {
            // one or two sketches: with and without abundance (so that the look-up can tell them apart)
            let flags: Vec<bool> = match r.below(5) {
                0 => vec![],
                1 | 2 => vec![r.chance(1, 2)],
                _ => if r.chance(1, 2) { vec![false, true] } else { vec![true, false] },
            };
            let none_name = flags.len() == 1 && r.chance(1, 3);
            let name = if none_name { "~".to_string() } else { hex(gen_string(&mut r).as_bytes()) };
            let fname = if r.chance(1, 2) { "~".to_string() } else { hex(gen_string(&mut r).as_bytes()) };
            if name == "~" && fname == "~" && flags.len() != 1 {
                continue;
            }
            o.op(&format!("sig {} {}", name, fname));
            for tr in &flags {
                let g = gen_sketch(&mut r, res, mol, *tr);
                let md5 = md5_of(&build_sketch(&format!("sk {}", g.words()).split(' ').collect::<Vec<_>>(), 0));
                o.op(&format!("sk {} {}", g.words(), md5));
            }
            total += flags.len() as u64;
        }
        for be in ["", " fs", " zip", " rdb"] {
            for i in 0..total {
                o.op(&format!("lookup {}{}", i, be));
            }
            if r.chance(1, 3) {
                o.op(&format!("lookup {}{}", total + r.below(2), be));
            }
        }
    }
    // stream 4: histories on collections
    let n4 = if a.cases > 0 { a.cases / 4 + 1 } else if thorough { 6000 } else { 600 };
    for ci in 0..n4 {
        gen_hist(&mut r, &mut o, ci);
    }
}

/// does a sketch satisfy a `hsel` request (generator-side estimate of what a slot still holds)
fn g_sat(g: &GSk, sel: &[Option<u64>; 5]) -> bool {
    let res = if g.mol == "dna" { g.ksize } else { g.ksize / 3 };
    let scaled_rep = if g.scaled == 0 { 0 } else { g.scaled };
    sel[0].map_or(true, |k| res == k)
        && sel[1].map_or(true, |m| MOLS[m as usize] == g.mol)
        && sel[2].map_or(true, |a| (a == 1) == g.tracked)
        && sel[3].map_or(true, |n| g.num == n)
        && sel[4].map_or(true, |sc| scaled_rep != 0 && scaled_rep <= sc)
}

/// stream 4: histories - look-ups interleaved with intersect_manifest / select / clone / storage swaps
fn gen_hist(r: &mut Rng, o: &mut Out, ci: u64) {
    o.case("hist");
    let homog = r.chance(1, 2);
    let (hres, hmol) = (*r.pick(&[7u64, 10, 21, 31]), *r.pick(&MOLS));
    let nsig = r.range(2, 6);
    let mut flat: Vec<GSk> = vec![];
    for _ in 0..nsig {
        let keys: Vec<(u64, &'static str, bool)> = if homog {
            match r.below(5) {
                0 | 1 => vec![(hres, hmol, r.chance(1, 2))],
                2 => vec![],
                _ => if r.chance(1, 2) { vec![(hres, hmol, false), (hres, hmol, true)] } else { vec![(hres, hmol, true), (hres, hmol, false)] },
            }
        } else {
            let mut seen: Vec<(u64, &'static str, bool)> = vec![];
            for _ in 0..r.range(1, 3) {
                let key = (*r.pick(&[7u64, 10, 21, 31]), *r.pick(&MOLS), r.chance(1, 2));
                if !seen.contains(&key) {
                    seen.push(key);
                }
            }
            seen
        };
        let none_name = keys.len() == 1 && r.chance(1, 4);
        let name = if none_name { "~".to_string() } else { hex(gen_string(r).as_bytes()) };
        let fname = if r.chance(1, 2) { "~".to_string() } else { hex(gen_string(r).as_bytes()) };
        if name == "~" && fname == "~" && keys.len() != 1 {
            continue;
        }
        o.op(&format!("sig {} {}", name, fname));
        for key in keys {
            let g = gen_sketch(r, key.0, key.1, key.2);
            let md5 = md5_of(&build_sketch(&format!("sk {}", g.words()).split(' ').collect::<Vec<_>>(), 0));
            o.op(&format!("sk {} {}", g.words(), md5));
            flat.push(g);
        }
    }
    let total = flat.len() as u64;
    let be = if homog && ci % 8 == 0 { "rdb" } else { *r.pick(&["mem", "mem", "fs", "zip"]) };
    o.op(&format!("hnew {}", be));
    // what the generator believes each slot holds (positions in the original manifest)
    let mut slots: [Option<Vec<u64>>; 3] = [Some((0..total).collect()), None, None];
    let mut last: (u64, u64) = (0, 0);
    for _ in 0..r.range(8, 24) {
        let live: Vec<u64> = (0..3u64).filter(|&a| slots[a as usize].is_some()).collect();
        let a = if r.chance(1, 3) && slots[last.0 as usize].is_some() { last.0 } else { *r.pick(&live) };
        let cur = slots[a as usize].clone().unwrap();
        let n = cur.len() as u64;
        let idx = |r: &mut Rng| -> u64 {
            if r.chance(1, 3) {
                last.1 // the index that was looked at last (here or in another slot)
            } else if n == 0 || r.chance(1, 25) {
                n + r.below(2)
            } else {
                r.below(n)
            }
        };
        match r.below(20) {
            0..=7 => {
                let i = idx(r);
                o.op(&format!("hget {} {}", a, i));
                last = (a, i);
            }
            8 => {
                let i = idx(r);
                o.op(&format!("hfr {} {}", a, i));
            }
            9 => {
                let i = idx(r);
                o.op(&format!("hrec {} {}", a, i));
            }
            10 => {
                let i = idx(r);
                o.op(&format!("hlazy {} {}", a, i));
            }
            11 => o.op(&format!("hiter {}", a)),
            12..=14 => {
                // mostly: drop one or two of the rows the slot holds (an EARLIER row renumbers the rest)
                let mut keep = cur.clone();
                if !keep.is_empty() {
                    let at = if r.chance(1, 2) { 0 } else { r.below(keep.len() as u64) as usize };
                    keep.remove(at);
                }
                if !keep.is_empty() && r.chance(1, 3) {
                    keep.remove(r.below(keep.len() as u64) as usize);
                }
                if r.chance(1, 6) && total > 0 {
                    keep.push(r.below(total));
                }
                if r.chance(1, 8) {
                    keep.reverse();
                }
                o.op(&format!("hisect {} {}", a, show_nats(keep.iter().cloned())));
                slots[a as usize] = Some(cur.iter().cloned().filter(|p| keep.contains(p)).collect());
            }
            15 | 16 => {
                let b = r.below(3);
                if b != a {
                    o.op(&format!("hclone {} {}", a, b));
                    slots[b as usize] = slots[a as usize].clone();
                }
            }
            17 => o.op(&format!("hswap {}", a)),
            _ => {
                let mut sel: [Option<u64>; 5] = [None; 5];
                if !cur.is_empty() {
                    let g = &flat[*r.pick(&cur) as usize];
                    match r.below(6) {
                        0 | 1 => sel[0] = Some(if g.mol == "dna" { g.ksize } else { g.ksize / 3 }),
                        2 => sel[1] = Some(MOLS.iter().position(|m| *m == g.mol).unwrap() as u64),
                        3 => sel[2] = Some(g.tracked as u64),
                        4 => sel[3] = Some(g.num),
                        _ => sel[4] = Some(if g.scaled == 0 { 1000 } else { g.scaled.min(u32::MAX as u64) }),
                    }
                } else {
                    sel[0] = Some(21);
                }
                let w: Vec<String> = (0..5)
                    .map(|i| match sel[i] {
                        None => "-".to_string(),
                        Some(v) if i == 1 => MOLS[v as usize].to_string(),
                        Some(v) => v.to_string(),
                    })
                    .collect();
                o.op(&format!("hsel {} {}", a, w.join(" ")));
                slots[a as usize] = Some(cur.iter().cloned().filter(|&p| g_sat(&flat[p as usize], &sel)).collect());
            }
        }
    }
}

// ------------------------------------------------------------------ exec

#[derive(Default)]
struct St {
    recs: Vec<Record>,
    sigs: Vec<Signature>,
    /// bumped by every `sig` / `sk` line: a stored collection is rebuilt when the signatures changed
    version: u64,
    stored: std::collections::BTreeMap<String, Stored>,
    /// the document of the case's `mcsv` line
    doc: Vec<u8>,
    /// histories: the backend and original manifest of `hnew`, and the slots
    hbe: String,
    orig: Vec<Record>,
    slots: [Option<Collection>; 3],
}

/// a collection over one of the non-memory storages, built once per case and backend
struct Stored {
    version: u64,
    _dir: tempfile::TempDir,
    coll: Result<Collection, String>,
}


fn err_name<E: std::fmt::Debug>(e: E) -> String {
    let s = format!("{:?}", e);
    format!("err {}", s.chars().take_while(|c| c.is_alphanumeric()).collect::<String>())
}

fn crc32(data: &[u8]) -> u32 {
    let mut c = 0xFFFF_FFFFu32;
    for &b in data {
        c ^= b as u32;
        for _ in 0..8 {
            c = if c & 1 != 0 { (c >> 1) ^ 0xEDB8_8320 } else { c >> 1 };
        }
    }
    !c
}

/// a zip archive with stored (uncompressed) entries — the crate only reads zips (`piz`), it has no writer
fn zip_bytes(entries: &[(String, Vec<u8>)]) -> Vec<u8> {
    let mut out: Vec<u8> = vec![];
    let mut central: Vec<u8> = vec![];
    for (name, data) in entries {
        let off = out.len() as u32;
        let crc = crc32(data);
        let mut common: Vec<u8> = vec![];
        common.extend(20u16.to_le_bytes()); // version needed
        common.extend(0x0800u16.to_le_bytes()); // flags: UTF-8 names
        common.extend(0u16.to_le_bytes()); // method: stored
        common.extend(0u16.to_le_bytes()); // time
        common.extend(0x21u16.to_le_bytes()); // date 1980-01-01
        common.extend(crc.to_le_bytes());
        common.extend((data.len() as u32).to_le_bytes());
        common.extend((data.len() as u32).to_le_bytes());
        common.extend((name.len() as u16).to_le_bytes());
        common.extend(0u16.to_le_bytes()); // extra length
        out.extend(0x0403_4b50u32.to_le_bytes());
        out.extend(&common);
        out.extend(name.as_bytes());
        out.extend(data);
        central.extend(0x0201_4b50u32.to_le_bytes());
        central.extend(20u16.to_le_bytes()); // version made by
        central.extend(&common);
        central.extend(0u16.to_le_bytes()); // comment length
        central.extend(0u16.to_le_bytes()); // disk number
        central.extend(0u16.to_le_bytes()); // internal attributes
        central.extend(0u32.to_le_bytes()); // external attributes
        central.extend(off.to_le_bytes());
        central.extend(name.as_bytes());
    }
    let cd_off = out.len() as u32;
    out.extend(&central);
    out.extend(0x0605_4b50u32.to_le_bytes());
    out.extend(0u16.to_le_bytes());
    out.extend(0u16.to_le_bytes());
    out.extend((entries.len() as u16).to_le_bytes());
    out.extend((entries.len() as u16).to_le_bytes());
    out.extend((central.len() as u32).to_le_bytes());
    out.extend(cd_off.to_le_bytes());
    out.extend(0u16.to_le_bytes());
    out
}

fn build_stored(sigs: &[Signature], be: &str, version: u64, doc: &[u8]) -> Stored {
    use camino::Utf8PathBuf;
    use verif_harness::index_util::{scratch_dir, write_sig_files};
    let dir = scratch_dir();
    let coll: Result<Collection, String> = (|| match be {
        "fs" => {
            let paths = write_sig_files(&dir.path().join("sigs"), sigs);
            Collection::from_paths(&paths).map_err(err_name)
        }
        "fsm" => {
            std::fs::create_dir_all(dir.path().join("sigs")).unwrap();
            let p = dir.path().join("sigs").join("d0.sig");
            serde_json::to_writer(std::fs::File::create(&p).unwrap(), &sigs.to_vec()).unwrap();
            Collection::from_paths(&[Utf8PathBuf::from_path_buf(p).unwrap()]).map_err(err_name)
        }
        "zip" => {
            let mut entries: Vec<(String, Vec<u8>)> = vec![];
            let mut recs: Vec<Record> = vec![];
            for (i, sig) in sigs.iter().enumerate() {
                let name = format!("signatures/d{}.sig", i);
                recs.extend(Record::from_sig(sig, &name));
                entries.push((name, serde_json::to_vec(&vec![sig]).unwrap()));
            }
            let m: Manifest = recs.into();
            let mut buf = vec![];
            m.to_writer(&mut buf).unwrap();
            entries.push(("SOURMASH-MANIFEST.csv".into(), buf));
            let p = dir.path().join("c.zip");
            std::fs::write(&p, zip_bytes(&entries)).unwrap();
            Collection::from_zipfile(Utf8PathBuf::from_path_buf(p).unwrap()).map_err(err_name)
        }
        "csv" => {
            let storage = MemStorage::new();
            for (i, sig) in sigs.iter().enumerate() {
                storage.save_sig(&format!("signatures/d{}.sig", i), sig.clone()).map_err(err_name)?;
            }
            let m = Manifest::from_reader(doc).map_err(err_name)?;
            Ok(Collection::new(m, InnerStorage::new(storage)))
        }
        "csvzip" => {
            let mut entries: Vec<(String, Vec<u8>)> = vec![];
            for (i, sig) in sigs.iter().enumerate() {
                entries.push((format!("signatures/d{}.sig", i), serde_json::to_vec(&vec![sig]).unwrap()));
            }
            entries.push(("SOURMASH-MANIFEST.csv".into(), doc.to_vec()));
            let p = dir.path().join("c.zip");
            std::fs::write(&p, zip_bytes(&entries)).unwrap();
            Collection::from_zipfile(Utf8PathBuf::from_path_buf(p).unwrap()).map_err(err_name)
        }
        #[cfg(feature = "disk")]
        "rdb" => {
            let sigdir = dir.path().join("sigs");
            let paths = write_sig_files(&sigdir, sigs);
            let cs: CollectionSet = Collection::from_paths(&paths).map_err(err_name)?.try_into().map_err(err_name)?;
            let idx_dir = Utf8PathBuf::from_path_buf(dir.path().join("idx")).unwrap();
            {
                let mut idx = RevIndex::create(idx_dir.as_path(), cs, false).map_err(err_name)?;
                idx.internalize_storage().map_err(err_name)?;
            }
            // the signatures now live inside the database only
            std::fs::remove_dir_all(&sigdir).unwrap();
            Collection::from_rocksdb(idx_dir.as_path()).map_err(err_name)
        }
        _ => Err("bad-backend".into()),
    })();
    Stored { version, _dir: dir, coll }
}

/// `…/d<i>.sig` -> `<i>`: the position of the signature, which is what memory storage uses as location
fn canon_loc(loc: &str) -> String {
    let last = loc.rsplit('/').next().unwrap_or(loc);
    match last.strip_prefix('d').and_then(|x| x.strip_suffix(".sig")) {
        Some(n) if !n.is_empty() && n.bytes().all(|b| b.is_ascii_digit()) => n.to_string(),
        _ => loc.to_string(),
    }
}

fn lookup_in(c: &Collection, i: u32) -> String {
    match c.sig_for_dataset(i) {
        Ok(s) => {
            let loc = canon_loc(c.manifest()[i as usize].internal_location().as_str());
            let v: Vec<String> = Signature::from(s).iter().map(descr).collect();
            format!("{}={}", loc, if v.is_empty() { "-".into() } else { v.join(";") })
        }
        Err(e) => format!("err {:?}", e),
    }
}

fn build_sketch(ws: &[&str], j: usize) -> Sketch {
    let n = |i: usize| -> u64 { ws[i].parse().unwrap() };
    let (ksize, mol, num, scaled, tracked, cont) = (n(1), ws[2], n(3), n(4), ws[5] == "1", ws[6]);
    let mins = parse_nats(ws[7]);
    let abunds = parse_nats(ws[8]);
    let seed = SEED0 + j as u64;
    if cont == "v" {
        let mut mh = KmerMinHash::new(scaled, ksize as u32, hf(mol), seed, tracked, num as u32);
        for (i, h) in mins.iter().enumerate() {
            mh.add_hash_with_abundance(*h, if tracked { abunds[i] } else { 1 });
        }
        Sketch::MinHash(mh)
    } else {
        let mut mh = KmerMinHashBTree::new(scaled, ksize as u32, hf(mol), seed, tracked, num as u32);
        for (i, h) in mins.iter().enumerate() {
            mh.add_hash_with_abundance(*h, if tracked { abunds[i] } else { 1 });
        }
        Sketch::LargeMinHash(mh)
    }
}

fn md5_of(s: &Sketch) -> String {
    match s {
        Sketch::MinHash(mh) => mh.md5sum(),
        Sketch::LargeMinHash(mh) => mh.md5sum(),
        _ => panic!(),
    }
}

fn descr(s: &Sketch) -> String {
    let (seed, ksize, h, num, scaled, tracked, c, mins, abunds) = match s {
        Sketch::MinHash(mh) => (
            mh.seed(), mh.ksize(), mh.hash_function(), mh.num(), mh.scaled(), mh.track_abundance(), 'v', mh.mins(), mh.abunds(),
        ),
        Sketch::LargeMinHash(mh) => (
            mh.seed(), mh.ksize(), mh.hash_function(), mh.num(), mh.scaled(), mh.track_abundance(), 't', mh.mins(), mh.abunds(),
        ),
        _ => panic!("sketch type"),
    };
    format!(
        "{}/{}/{}/{}/{}/{}/{}/{}/{}/{}/{}",
        seed - SEED0,
        ksize,
        mol_name(&h),
        num,
        scaled,
        tracked as u8,
        c,
        mins.len(),
        show_nats(mins),
        show_nats(abunds.unwrap_or_default()),
        md5_of(s)
    )
}

fn idx_list(st: &St, s: &str) -> Manifest {
    let v: Vec<Record> = parse_nats(s).into_iter().map(|i| st.recs[i as usize].clone()).collect();
    v.into()
}

fn parse_sel(ws: &[&str]) -> Selection {
    let mut sel = Selection::default();
    if ws[0] != "-" {
        sel.set_ksize(ws[0].parse().unwrap());
    }
    if ws[1] != "-" {
        sel.set_moltype(hf(ws[1]));
    }
    if ws[2] != "-" {
        sel.set_abund(ws[2] == "1");
    }
    if ws[3] != "-" {
        sel.set_num(ws[3].parse().unwrap());
    }
    if ws[4] != "-" {
        sel.set_scaled(ws[4].parse().unwrap());
    }
    sel
}

/// a record with its location reduced to the signature's position (see `canon_loc`)
fn show_record_canon(r: &Record) -> String {
    let full = show_record(r);
    let rest = full.split_once(':').unwrap().1;
    format!("{}:{}", hex(canon_loc(r.internal_location().as_str()).as_bytes()), rest)
}

fn show_rows(c: &Collection) -> String {
    let v: Vec<String> = c.manifest().iter().map(show_record_canon).collect();
    if v.is_empty() {
        "-".into()
    } else {
        v.join("|")
    }
}

fn show_loaded(loc: &str, r: Result<SigStore, sourmash::Error>) -> String {
    match r {
        Ok(s) => match s.data() {
            Ok(sig) => {
                let v: Vec<String> = sig.iter().map(descr).collect();
                format!("{}={}", canon_loc(loc), if v.is_empty() { "-".into() } else { v.join(";") })
            }
            Err(e) => err_name(e),
        },
        Err(e) => err_name(e),
    }
}

/// a storage object of the history's backend holding what the collection's storage holds
fn fresh_storage(st: &St, c: &Collection) -> InnerStorage {
    match st.hbe.as_str() {
        "mem" => {
            let storage = MemStorage::new();
            for (i, sig) in st.sigs.iter().enumerate() {
                storage.save_sig(&i.to_string(), sig.clone()).unwrap();
            }
            InnerStorage::new(storage)
        }
        "fs" => InnerStorage::new(FSStorage::new("", "")),
        "zip" => {
            let p = st.stored["zip"]._dir.path().join("c.zip");
            InnerStorage::new(ZipStorage::from_file(camino::Utf8PathBuf::from_path_buf(p).unwrap()).unwrap())
        }
        // the database stays where it is: another handle on it
        _ => c.storage().clone(),
    }
}

fn hist_step(st: &mut St, ws: &[&str]) -> String {
    if ws[0] == "hnew" {
        st.slots = [None, None, None];
        st.orig.clear();
        let be = ws[1];
        st.hbe = be.to_string();
        let c = if be == "mem" {
            Collection::from_sigs(st.sigs.clone()).map_err(err_name)
        } else {
            #[cfg(not(feature = "disk"))]
            if be == "rdb" {
                return "NA".into();
            }
            if st.stored.get(be).map(|b| b.version) != Some(st.version) {
                st.stored.remove(be);
                let b = build_stored(&st.sigs, be, st.version, &st.doc);
                st.stored.insert(be.to_string(), b);
            }
            st.stored[be].coll.clone()
        };
        return match c {
            Ok(c) => {
                st.orig = c.manifest().iter().cloned().collect();
                let n = c.len();
                st.slots[0] = Some(c);
                format!("ok {}", n)
            }
            Err(e) => e,
        };
    }
    #[cfg(not(feature = "disk"))]
    if st.hbe == "rdb" {
        return "NA".into();
    }
    let a: usize = ws[1].parse().unwrap();
    if st.slots[a].is_none() {
        return "none".into();
    }
    match ws[0] {
        "hclone" => {
            let b: usize = ws[2].parse().unwrap();
            st.slots[b] = st.slots[a].clone();
            "ok".into()
        }
        "hisect" => {
            let other: Vec<Record> = parse_nats(ws[2]).into_iter().map(|i| st.orig[i as usize].clone()).collect();
            let c = st.slots[a].as_mut().unwrap();
            c.intersect_manifest(&Manifest::from(other));
            show_rows(c)
        }
        "hsel" => {
            let sel = parse_sel(&ws[2..]);
            match st.slots[a].take().unwrap().select(&sel) {
                Ok(c) => {
                    let out = show_rows(&c);
                    st.slots[a] = Some(c);
                    out
                }
                Err(e) => err_name(e),
            }
        }
        "hswap" => {
            let c = st.slots[a].take().unwrap();
            let storage = fresh_storage(st, &c);
            let c = match CollectionSet::try_from(c.clone()) {
                Ok(mut cs) => {
                    unsafe { cs.set_storage_unchecked(storage) };
                    cs.into_inner()
                }
                Err(_) => Collection::new(c.manifest().clone(), storage),
            };
            st.slots[a] = Some(c);
            "ok".into()
        }
        "hget" | "hfr" | "hlazy" | "hrec" => {
            let c = st.slots[a].as_ref().unwrap();
            let i: u32 = ws[2].parse().unwrap();
            match ws[0] {
                "hrec" => match c.record_for_dataset(i) {
                    Ok(r) => show_record_canon(r),
                    Err(e) => err_name(e),
                },
                "hget" => {
                    let got = c.sig_for_dataset(i);
                    let loc = c.manifest()[i as usize].internal_location().to_string();
                    show_loaded(&loc, got)
                }
                "hfr" => {
                    let rec = c.manifest()[i as usize].clone();
                    show_loaded(rec.internal_location().as_str(), c.sig_from_record(&rec))
                }
                _ => {
                    let rec = c.manifest()[i as usize].clone();
                    let store = SigStore::builder()
                        .filename(rec.internal_location().as_str())
                        .name(rec.name().clone())
                        .metadata("")
                        .storage(Some(c.storage().clone()))
                        .build();
                    let got = (|| {
                        let sel = Selection::from_record(&rec)?;
                        let spare = store.clone();
                        match store.select(&sel) {
                            Ok(s) => Ok(s),
                            Err(_) => {
                                spare.data()?;
                                spare.select(&sel)
                            }
                        }
                    })();
                    show_loaded(rec.internal_location().as_str(), got)
                }
            }
        }
        "hiter" => {
            let c = st.slots[a].as_ref().unwrap();
            let v: Vec<String> = c
                .iter()
                .map(|(i, r)| format!("{}:{}:{}", i, canon_loc(r.internal_location().as_str()), r.md5()))
                .collect();
            if v.is_empty() {
                "-".into()
            } else {
                v.join("|")
            }
        }
        _ => "bad-op".into(),
    }
}

fn step(st: &mut St, ws: &[&str]) -> String {
    match ws[0] {
        "case" => "ok".into(),
        "rec" => {
            st.recs.push(make_record(&ws[1..]));
            "ok".into()
        }
        "write" => {
            let m: Manifest = st.recs.clone().into();
            let mut buf = vec![];
            m.to_writer(&mut buf).unwrap();
            hex(&buf)
        }
        "rt" => {
            let m: Manifest = st.recs.clone().into();
            let mut buf = vec![];
            m.to_writer(&mut buf).unwrap();
            match Manifest::from_reader(&buf[..]) {
                Ok(m) => show_records(m.iter()),
                Err(_) => "err CsvError".into(),
            }
        }
        "read" => match Manifest::from_reader(&unhex(ws[1])[..]) {
            Ok(m) => show_records(m.iter()),
            Err(_) => "err CsvError".into(),
        },
        "isect" => {
            let a = idx_list(st, ws[1]);
            let b = idx_list(st, ws[2]);
            show_records(a.intersect_manifest(&b).iter())
        }
        "cisect" => {
            let mut c = Collection::new(idx_list(st, ws[1]), InnerStorage::new(MemStorage::new()));
            c.intersect_manifest(&idx_list(st, ws[2]));
            show_records(c.manifest().iter())
        }
        "superset" => {
            let a = Collection::new(idx_list(st, ws[1]), InnerStorage::new(MemStorage::new()));
            let b = Collection::new(idx_list(st, ws[2]), InnerStorage::new(MemStorage::new()));
            match a.check_superset(&b) {
                Ok(n) => format!("ok {}", n),
                Err(e) => err_name(e),
            }
        }
        "readm" => match Manifest::from_reader(&unhex(ws[1])[..]) {
            Ok(m) => {
                st.recs = m.iter().cloned().collect();
                show_records(m.iter())
            }
            Err(_) => "err CsvError".into(),
        },
        "mcsv" => {
            st.doc = unhex(ws[1]);
            st.version += 1;
            match Manifest::from_reader(&st.doc[..]) {
                Ok(m) => show_records(m.iter()),
                Err(_) => "err CsvError".into(),
            }
        }
        "sig" => {
            let mut sig = Signature::default();
            if ws[1] != "~" {
                sig.set_name(&s_of(ws[1]));
            }
            if ws[2] != "~" {
                sig.set_filename(&s_of(ws[2]));
            }
            st.sigs.push(sig);
            st.version += 1;
            "ok".into()
        }
        "sk" => {
            let sig = st.sigs.last_mut().unwrap();
            let sk = build_sketch(ws, sig.size());
            let d = descr(&sk);
            sig.push(sk);
            st.version += 1;
            d
        }
        "fromsig" => {
            let sig = &st.sigs[ws[1].parse::<usize>().unwrap()];
            let recs = Record::from_sig(sig, &s_of(ws[2]));
            show_records(recs.iter())
        }
        "lookup" if ws.len() == 2 => {
            let c = Collection::from_sigs(st.sigs.clone()).unwrap();
            lookup_in(&c, ws[1].parse().unwrap())
        }
        #[cfg(not(feature = "disk"))]
        "lookup" if ws[2] == "rdb" => "NA".into(),
        "lookup" => {
            let be = ws[2];
            if st.stored.get(be).map(|b| b.version) != Some(st.version) {
                st.stored.remove(be);
                let b = build_stored(&st.sigs, be, st.version, &st.doc);
                st.stored.insert(be.to_string(), b);
            }
            match &st.stored[be].coll {
                Ok(c) => lookup_in(c, ws[1].parse().unwrap()),
                Err(e) => e.clone(),
            }
        }
        "hnew" | "hclone" | "hisect" | "hsel" | "hswap" | "hget" | "hfr" | "hlazy" | "hrec" | "hiter" => hist_step(st, ws),
        "zipcheck" => {
            let c = Collection::from_zipfile(format!("/repo/tests/test-data/{}", ws[1])).unwrap();
            let mut bad = vec![];
            for (i, rec) in c.iter() {
                let s = Signature::from(c.sig_for_dataset(i).unwrap());
                let rs = Record::from_sig(&s, rec.internal_location().as_str());
                if rs.len() != 1 || show_record(&rs[0]) != show_record(rec) {
                    bad.push(i.to_string());
                }
            }
            if bad.is_empty() && !c.is_empty() {
                "faithful".into()
            } else {
                format!("unfaithful {}", bad.join(","))
            }
        }
        _ => "bad-op".into(),
    }
}

fn main() {
    let a = args();
    match a.mode.as_str() {
        "gen" => gen(&a),
        "exec" => exec_loop(St::default, step),
        _ => panic!("mode"),
    }
}
