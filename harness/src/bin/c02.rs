//! C02: sequence k-mers hash to the documented canonical values in every mode.
//!
//! `dump`  — behavioural extraction of the finite tables (used by translator/c02.py)
//! `gen`   — request lines; `exec` — answers them by running the real crate.
//!
//! ops (bytes always in hex, `-` = empty):
//!   s2h    <mol> <k> <seed> <force> <isprotein> <hexseq>  raw `SeqToHashes` item stream
//!   feed   <mol> <k> <seed> <force> <isprotein> <hexseq>  the `add_hash` calls the real default
//!                                                         `add_sequence`/`add_protein` make, in order
//!   addseq <mol> <k> <seed> <force> <isprotein> <hexseq>  mins() of a scaled=1 KmerMinHash
//!   capi   <mol> <k> <seed> <force> <zeroes> <isprotein> <hexseq>  kmerminhash_seq_to_hashes
//!   murmur <seed> <hexbytes>     codon <hex>     toaa <mol> <hex>     rc <hex>
//!   seq <hexseq>                 sets the case's current sequence (`@` in later ops); answers `len=<n>`
//!   ds2h / dfeed <mol> <k> <seed> <force> <isprotein> <hexseq|@>   the same observations as `s2h` /
//!                                `feed`, answered as a digest (count, xor, sum, order-sensitive
//!                                polynomial, first and last 8 values) — for 65 000…200 000-base inputs
//!   daddseq <v|t> <num> <mol> <k> <seed> <force> <isprotein> <hexseq|@>   digest of mins() of a
//!                                KmerMinHash (`v`) / KmerMinHashBTree (`t`), scaled=1 (num=0) or
//!                                bottom-<num>
//!   sigadd <digest> <force> <isprotein> <specs> <hexseq|@>   `Signature::add_sequence` / `add_protein`
//!                                on a signature of several sketches `ty:num:scaled:mol:k:seed;…`;
//!                                `ok <mins>|<mins>|…` (digests when <digest>=1) or `err <Variant>`
use sourmash::encodings::{aa_to_dayhoff, aa_to_hp, revcomp, to_aa, translate_codon, HashFunctions, VALID};
use sourmash::ffi::minhash::{
    kmerminhash_free, kmerminhash_new, kmerminhash_seq_to_hashes, kmerminhash_slice_free,
};
use sourmash::ffi::utils::{sourmash_err_clear, sourmash_err_get_last_code};
use sourmash::signature::{SeqToHashes, Signature, SigsTrait};
use sourmash::sketch::minhash::{KmerMinHash, KmerMinHashBTree};
use sourmash::sketch::Sketch;
use sourmash::Error;
use std::io::Write;
use verif_harness::*;

// ------------------------------------------------------------------------------------------ dump

fn codon_res(c: &[u8]) -> String {
    match translate_codon(c) {
        Ok(v) => v.to_string(),
        Err(e) => format!("err:{}", variant(&e)),
    }
}

fn dump() {
    let out = std::io::stdout();
    let mut w = std::io::BufWriter::new(out.lock());
    let row = |name: &str, f: &dyn Fn(u8) -> u64| -> String {
        format!(
            "{} {}",
            name,
            (0..=255u8).map(|b| f(b).to_string()).collect::<Vec<_>>().join(",")
        )
    };
    writeln!(w, "{}", row("dayhoff", &|b| aa_to_dayhoff(b) as u64)).unwrap();
    writeln!(w, "{}", row("hp", &|b| aa_to_hp(b) as u64)).unwrap();
    writeln!(w, "{}", row("complement", &|b| {
        let r = revcomp(&[b]);
        assert_eq!(r.len(), 1);
        r[0] as u64
    }))
    .unwrap();
    writeln!(w, "{}", row("valid", &|b| VALID[b as usize] as u64)).unwrap();
    // revcomp reverses: one asymmetric probe per length 0..4 so that the `rev()` is observed too
    writeln!(w, "revcomp_probe {}", hex(&revcomp(b"AACGTN\x00z"))).unwrap();
    // translate_codon on EVERY 3-byte input: the entries that are not X are the behavioural CODONTABLE
    let mut nonx = 0u64;
    for a in 0..=255u8 {
        for b in 0..=255u8 {
            for c in 0..=255u8 {
                match translate_codon(&[a, b, c]) {
                    Ok(b'X') => {}
                    Ok(v) => {
                        nonx += 1;
                        writeln!(w, "codon3 {} {} {} {}", a, b, c, v).unwrap();
                    }
                    Err(e) => writeln!(w, "codon3err {} {} {} {}", a, b, c, variant(&e)).unwrap(),
                }
            }
        }
    }
    writeln!(w, "codon3_nonx {}", nonx).unwrap();
    // the 125 codons over {A,C,G,T,N} with their value (X included), and all 1-/2-byte inputs over it
    let al = b"ACGTN";
    for &a in al {
        writeln!(w, "codon1 {} {}", a, codon_res(&[a])).unwrap();
        for &b in al {
            writeln!(w, "codon2 {} {} {}", a, b, codon_res(&[a, b])).unwrap();
            for &c in al {
                writeln!(w, "codon125 {} {} {} {}", a, b, c, codon_res(&[a, b, c])).unwrap();
            }
        }
    }
    // every 1-byte input is X; every 2-byte input xy behaves as xyN
    let one_nonx = (0..=255u8).filter(|&a| translate_codon(&[a]).ok() != Some(b'X')).count();
    writeln!(w, "codon1_nonx {}", one_nonx).unwrap();
    let mut two_mismatch = 0u64;
    for a in 0..=255u8 {
        for b in 0..=255u8 {
            if codon_res(&[a, b]) != codon_res(&[a, b, b'N']) {
                two_mismatch += 1;
            }
        }
    }
    writeln!(w, "codon2_vs_xyN_mismatch {}", two_mismatch).unwrap();
    writeln!(w, "codonlen0 {}", codon_res(&[])).unwrap();
    writeln!(w, "codonlen4 {}", codon_res(b"ACGT")).unwrap();
    writeln!(w, "murmur_ACG_42 {}", sourmash::_hash_murmur(b"ACG", 42)).unwrap();
    w.flush().unwrap();
}

// ------------------------------------------------------------------------------------------- gen

const MOLS: [&str; 4] = ["dna", "protein", "dayhoff", "hp"];
const AAS: &[u8] = b"ACDEFGHIKLMNPQRSTVWY";

/// a long case waiting to be emitted (interleaved with the short ones: `./check` splits the request
/// lines into contiguous chunks of equal line count, one worker each)
#[derive(Clone)]
struct Long {
    mol: &'static str,
    k: u64,
    len: usize,
    force: bool,
    isprot: bool,
    nbad: usize,
    sig: bool,
}

struct G {
    r: Rng,
    o: Out,
    nseq: u64,
    longq: Vec<Long>,
    stride: u64,
    since: u64,
}

impl G {
    fn seed(&mut self) -> u64 {
        match self.r.below(5) {
            0 => 0,
            1 | 2 => 42,
            3 => u64::MAX,
            _ => self.r.next(),
        }
    }
    /// a byte that is not one of ACGT after upper-casing
    fn bad(&mut self) -> u8 {
        match self.r.below(10) {
            0 | 1 | 2 => b'N',
            3 => b'n',
            4 => *self.r.pick(b"RYKMSWBDHVUXZ-.* \t\n0@[`{"),
            5 => *self.r.pick(b"rykmswbdhvux"),
            6 => self.r.below(0x20) as u8,
            7 => 0x7f,
            8 => *self.r.pick(&[0x80u8, 0xc3, 0xa9, 0xe2, 0x82, 0xac, 0xf0, 0xff, 0xfe, 0xc0, 0xbf]),
            _ => self.r.range(0x80, 0xff) as u8,
        }
    }
    fn base(&mut self, lower: u64) -> u8 {
        let b = *self.r.pick(b"ACGT");
        if self.r.chance(lower, 100) {
            b.to_ascii_lowercase()
        } else {
            b
        }
    }
    fn dna(&mut self, len: usize, lower: u64) -> Vec<u8> {
        (0..len).map(|_| self.base(lower)).collect()
    }
    fn residue(&mut self) -> u8 {
        match self.r.below(20) {
            0 => *self.r.pick(b"*XBZJUO"),
            1 => self.r.pick(AAS).to_ascii_lowercase(),
            2 => match self.r.below(4) {
                0 => *self.r.pick(b" -.0@[`{*"),
                1 => self.r.below(0x20) as u8,
                2 => *self.r.pick(&[0x80u8, 0xc3, 0xa9, 0xff]),
                _ => self.r.range(0x80, 0xff) as u8,
            },
            _ => *self.r.pick(AAS),
        }
    }
    /// one sequence = one case: the raw stream, the fed hashes, the sketch, the C API
    fn emit(&mut self, what: &str, mol: &str, k: u64, seed: u64, force: bool, isprot: bool, seq: &[u8]) {
        self.o.case(what);
        self.nseq += 1;
        let f = force as u8;
        let p = isprot as u8;
        let h = hex(seq);
        self.o.op(&format!("s2h {} {} {} {} {} {}", mol, k, seed, f, p, h));
        self.o.op(&format!("feed {} {} {} {} {} {}", mol, k, seed, f, p, h));
        self.o.op(&format!("addseq {} {} {} {} {} {}", mol, k, seed, f, p, h));
        // the C API truncates nothing (buffer + length), but the ksize is a u32 and the scaled 1
        let z = self.r.below(2);
        self.o.op(&format!("capi {} {} {} {} {} {} {}", mol, k, seed, f, z, p, h));
        // the digest forms of the same observations: on inputs of this size the Lean driver checks
        // its linear-time digest path against the model / specification functions themselves
        if self.r.chance(1, 4) {
            self.o.op(&format!("ds2h {} {} {} {} {} {}", mol, k, seed, f, p, h));
            self.o.op(&format!("dfeed {} {} {} {} {} {}", mol, k, seed, f, p, h));
            let (ty, num) = self.container(false);
            self.o.op(&format!("daddseq {} {} {} {} {} {} {} {}", ty, num, mol, k, seed, f, p, h));
        }
        self.since += 1;
        if self.since >= self.stride {
            self.since = 0;
            if let Some(l) = self.longq.pop() {
                self.emit_long(&l);
            }
        }
    }
    /// container type and num bound of a `daddseq`; a vector sketch that keeps everything is
    /// quadratic in the number of hashes, so long inputs get a tree or a bottom-num vector
    fn container(&mut self, long: bool) -> (&'static str, u64) {
        match self.r.below(4) {
            0 => ("t", 0),
            1 => ("t", *self.r.pick(&[1u64, 5, 500])),
            2 => ("v", *self.r.pick(&[1u64, 5, 500, 1000])),
            _ => {
                if long {
                    ("t", 0)
                } else {
                    ("v", 0)
                }
            }
        }
    }
    /// `ty:num:scaled:mol:k:seed`
    fn sketch_spec(&mut self, mol: &str, k: u64, seed: u64) -> String {
        let ty = *self.r.pick(&["v", "v", "t"]);
        let (num, scaled) = match self.r.below(6) {
            0 | 1 | 2 => (0u64, 1u64),
            3 => (0, *self.r.pick(&[2u64, 3, 10, 1000])),
            _ => (*self.r.pick(&[1u64, 3, 5, 500]), 0),
        };
        format!("{}:{}:{}:{}:{}:{}", ty, num, scaled, mol, k, seed)
    }
    /// sketches of one signature: few distinct ksizes and seeds, so that sketches sharing
    /// (ksize, molecule) with different seeds, and sharing a seed with different ksizes, are common
    fn sig_specs(&mut self, mols: &[&'static str], kd: &[u64], kp: &[u64], n: u64) -> String {
        let seeds = [42u64, self.seed(), self.seed(), 43];
        let mut v = vec![];
        for _ in 0..n {
            let mol = *self.r.pick(mols);
            let k = if mol == "dna" { *self.r.pick(kd) } else { *self.r.pick(kp) };
            let seed = *self.r.pick(&seeds);
            v.push(self.sketch_spec(mol, k, seed));
        }
        v.join(";")
    }
    /// 65 000 … 200 000 bases / residues: mostly ACGT, a handful of N / lower-case / invalid bytes
    /// near multiples of 4096 and 65536 (and near where overlapping 65536-blocks would start) and
    /// near both ends
    fn long_seq(&mut self, l: &Long) -> Vec<u8> {
        let len = l.len;
        if l.isprot {
            return (0..len).map(|_| self.residue()).collect();
        }
        let mut s: Vec<u8> = Vec::with_capacity(len);
        while s.len() < len {
            let mut x = self.r.next();
            for _ in 0..32 {
                if s.len() < len {
                    s.push(b"ACGT"[(x & 3) as usize]);
                    x >>= 2;
                }
            }
        }
        let k = l.k as i64;
        let near = |g: &mut G| -> usize {
            let j = g.r.range(1, 1 + (len as u64 >> 16)) as i64;
            // a DNA sketch that is not forcing stops at the first invalid window: keep those late
            let late = l.mol == "dna" && !l.force && !l.isprot;
            let anchor: i64 = match if late { 1 + g.r.below(2) * 6 } else { g.r.below(8) } {
                0 => 4096 * g.r.range(1, 1 + (len as u64 >> 12)) as i64,
                1 | 2 => 65536 * j,
                3 => 65536 * j - (j - 1) * (k - 1),
                4 => 65536 * j - j * (k - 1),
                5 => 65536 * j - j * (k - 3),
                6 => 0,
                _ => len as i64 - 1,
            };
            let p = anchor + g.r.range(0, 2 * l.k + 6) as i64 - k - 3;
            p.clamp(0, len as i64 - 1) as usize
        };
        // lower case: a few single positions and one run
        for _ in 0..self.r.below(6) {
            let p = near(self);
            s[p] = s[p].to_ascii_lowercase();
        }
        if self.r.chance(1, 2) {
            let p = near(self);
            for q in p..(p + self.r.range(1, 80) as usize).min(len) {
                s[q] = s[q].to_ascii_lowercase();
            }
        }
        for _ in 0..l.nbad {
            let p = near(self);
            s[p] = if self.r.chance(1, 2) { b'N' } else { self.bad() };
        }
        s
    }
    fn emit_long(&mut self, l: &Long) {
        let seq = self.long_seq(l);
        self.o.case(if l.sig { "long-sig" } else { "long" });
        self.nseq += 1;
        self.o.op(&format!("seq {}", hex(&seq)));
        let seed = self.seed();
        let (f, p) = (l.force as u8, l.isprot as u8);
        if l.sig {
            let mols: &[&'static str] = if l.isprot { &MOLS[1..] } else { &MOLS };
            let n = self.r.range(3, 5);
            let specs = self.sig_specs(mols, &[l.k, 31], &[l.k, 30], n)
                .replace("v:0:1:", "t:0:1:"); // a vector sketch that keeps 10^5 hashes is quadratic
            self.o.op(&format!("sigadd 1 {} {} {} @", f, p, specs));
            return;
        }
        self.o.op(&format!("ds2h {} {} {} {} {} @", l.mol, l.k, seed, f, p));
        self.o.op(&format!("dfeed {} {} {} {} {} @", l.mol, l.k, seed, f, p));
        let (ty, num) = self.container(true);
        self.o.op(&format!("daddseq {} {} {} {} {} {} {} @", ty, num, l.mol, l.k, seed, f, p));
    }
    fn long_len(&mut self, kind: u64, k: u64) -> usize {
        (match kind {
            0 => self.r.range(65530, 65545),
            1 => 70000,
            2 => self.r.range(131072 - k, 131072 + k),
            3 => *self.r.pick(&[196608u64, 200000, 199999]) + self.r.below(4),
            5 => self.r.range(4000, 6000),
            _ => self.r.range(65537, 210000),
        }) as usize
    }
    /// DNA sequence of length `len` with invalid bases at the given positions
    fn dna_with(&mut self, len: usize, lower: u64, bad_at: &[usize]) -> Vec<u8> {
        let mut s = self.dna(len, lower);
        for &p in bad_at {
            if p < len {
                s[p] = self.bad();
            }
        }
        s
    }
}

fn dna_k(r: &mut Rng) -> u64 {
    match r.below(6) {
        0 => r.range(1, 4),
        1 => *r.pick(&[21u64, 31, 32, 33, 51, 63, 64]),
        2 => r.range(1, 64),
        3 => r.range(5, 16),
        4 => *r.pick(&[1u64, 2, 3, 7, 8, 9, 15, 16, 17]),
        _ => r.range(1, 33),
    }
}
fn prot_k(r: &mut Rng) -> u64 {
    match r.below(5) {
        0 | 1 | 2 => 3 * r.range(1, 11),
        3 => r.range(3, 35), // non-multiples of 3 included
        _ => *r.pick(&[3u64, 4, 5, 6, 7, 8, 30, 31, 32, 33, 34, 35]),
    }
}

fn gen(a: &Args) {
    let thorough = a.tier == "thorough";
    let mul: u64 = if thorough { 25 } else { 1 };
    let mut g = G {
        r: Rng::new(a.seed),
        o: Out::new(),
        nseq: 0,
        longq: vec![],
        stride: if thorough { 2500 } else { 400 },
        since: 0,
    };
    // ---- long inputs (emitted in between the short cases, see `emit`)
    {
        let mut q: Vec<Long> = vec![];
        let mut add = |g: &mut G, mol: &'static str, k: u64, kind: u64, force: bool, isprot: bool, nbad: usize, sig: bool| {
            let len = g.long_len(kind, k);
            q.push(Long { mol, k, len, force, isprot, nbad, sig });
        };
        add(&mut g, "dna", 21, 0, false, false, 0, false);
        add(&mut g, "protein", 21, 1, false, false, 0, false);
        add(&mut g, "dna", 31, 2, true, false, 6, false);
        add(&mut g, "dayhoff", 30, 0, true, false, 4, false);
        add(&mut g, "hp", 57, 2, false, false, 3, false);
        add(&mut g, "dna", 21, 1, false, false, 0, true);
        add(&mut g, "protein", 33, 3, true, false, 5, false);
        add(&mut g, "protein", 21, 4, false, true, 0, false);
        add(&mut g, "dna", 57, 3, true, false, 6, false);
        // the real code rebuilds the reduced residue string on every `next()` (`prot_configured` is
        // never set): quadratic — 65 536 residues into a Dayhoff sketch take a minute — so Dayhoff
        // and HP sketches get protein inputs of a few thousand residues only
        add(&mut g, "dayhoff", 30, 5, false, true, 0, false);
        add(&mut g, "dna", 21, 1, false, false, 1, false); // fails late
        let extra = if thorough { 48 } else { 2 };
        for _ in 0..extra {
            let isprot = g.r.chance(1, 5);
            let mol = if isprot { *g.r.pick(&MOLS[1..]) } else { *g.r.pick(&MOLS) };
            let k = if mol == "dna" {
                *g.r.pick(&[21u64, 31, 51, 57, 32, 63])
            } else {
                *g.r.pick(&[21u64, 30, 33, 57, 27, 31, 9])
            };
            let kind = if isprot && mol != "protein" { 5 } else { g.r.below(5) };
            let force = g.r.chance(1, 2);
            let nbad = if mol == "dna" && !force { g.r.below(2) as usize } else { g.r.below(7) as usize };
            let sig = g.r.chance(1, 6);
            add(&mut g, mol, k, kind, force, isprot, nbad, sig);
        }
        q.reverse();
        g.longq = q;
    }

    // ---- fixed vectors: murmur suite vector, the whole codon alphabet, table probes
    g.o.case("fixed");
    g.o.op("selfcheck");
    g.o.op(&format!("murmur 42 {}", hex(b"ACG")));
    g.o.op("murmur 0 -");
    g.o.op("murmur 42 -");
    let al = b"ACGTNacgtnX\x00\xc3\xff";
    for &x in al {
        g.o.op(&format!("codon {}", hex(&[x])));
        for &y in al {
            g.o.op(&format!("codon {}", hex(&[x, y])));
            for &z in al {
                g.o.op(&format!("codon {}", hex(&[x, y, z])));
            }
        }
    }
    g.o.op("codon -");
    g.o.op(&format!("codon {}", hex(b"ACGT")));
    let all: Vec<u8> = (0..=255u8).collect();
    g.o.op(&format!("rc {}", hex(&all)));
    g.o.op(&format!("rc {}", hex(b"AACGTN")));
    for m in ["protein", "dayhoff", "hp"] {
        // to_aa of a string whose codons are `X` + every byte twice: exercises the reduction tables
        g.o.op(&format!("toaa {} {}", m, hex(b"ATGGCCTAAGGNTTNNNNAC")));
    }

    // ---- murmur on random byte strings of length 0..64
    g.o.case("murmur");
    for i in 0..(1500 * mul) {
        if i % 300 == 299 {
            g.o.case("murmur");
        }
        let len = if i < 130 { (i / 2) as usize } else { g.r.below(65) as usize };
        let bs: Vec<u8> = (0..len).map(|_| g.r.next() as u8).collect();
        let s = g.seed();
        g.o.op(&format!("murmur {} {}", s, hex(&bs)));
    }
    // codons / to_aa / revcomp on random bytes
    g.o.case("tables");
    for i in 0..(600 * mul) {
        if i % 200 == 199 {
            g.o.case("tables");
        }
        let len = g.r.below(5) as usize;
        let bs: Vec<u8> = (0..len)
            .map(|_| if g.r.chance(4, 5) { *g.r.pick(b"ACGTN") } else { g.r.next() as u8 })
            .collect();
        g.o.op(&format!("codon {}", hex(&bs)));
        let len = g.r.below(20) as usize;
        let bs: Vec<u8> = (0..len)
            .map(|_| if g.r.chance(9, 10) { *g.r.pick(b"ACGTNacgtn") } else { g.r.next() as u8 })
            .collect();
        g.o.op(&format!("rc {}", hex(&bs)));
        let m = *g.r.pick(&["protein", "dayhoff", "hp"]);
        g.o.op(&format!("toaa {} {}", m, hex(&bs)));
    }

    // ---- DNA, systematic: one invalid base at every position, pairs at distance 1, k-1, k
    let ks: &[u64] = if thorough { &[1, 2, 3, 4, 5, 7, 16, 21, 31, 32, 33, 64] } else { &[1, 2, 3, 4, 5, 21] };
    for &k in ks {
        let ku = k as usize;
        let len = 2 * ku + 3;
        for force in [false, true] {
            for p in 0..len {
                let s = g.dna_with(len, 0, &[p]);
                g.emit("dna-one-bad", "dna", k, 42, force, false, &s);
            }
            for p in 0..len {
                for d in [1usize, ku.saturating_sub(1).max(1), ku, ku + 1] {
                    if force || p % 3 == 0 {
                        let s = g.dna_with(len + ku, 0, &[p, p + d]);
                        g.emit("dna-two-bad", "dna", k, 42, force, false, &s);
                    }
                }
            }
        }
    }
    // ---- DNA, random: lengths 0..3k+7, invalid bases relative to a window
    for _ in 0..(2200 * mul) {
        let k = dna_k(&mut g.r);
        let ku = k as usize;
        let len = match g.r.below(8) {
            0 => g.r.below(k + 2) as usize,                      // around / below k
            1 => ku,
            2 => ku + 1,
            3 => g.r.below(3 * k + 8) as usize,
            _ => g.r.range(k, 3 * k + 7) as usize,
        };
        let lower = *g.r.pick(&[0u64, 0, 10, 50, 100]);
        let mut bad: Vec<usize> = vec![];
        if len > 0 {
            match g.r.below(7) {
                0 | 1 => {}                                                    // all valid
                2 => bad.push(g.r.below(len as u64) as usize),
                3 => {
                    // relative to a window start w: w, w+k-1, w+k, and adjacent pairs
                    let w = g.r.below(len as u64) as usize;
                    for off in [0usize, ku - 1, ku, ku + 1, 1] {
                        if g.r.chance(1, 2) {
                            bad.push(w + off);
                        }
                    }
                }
                4 => {
                    let p = g.r.below(len as u64) as usize;
                    bad.push(p);
                    bad.push(p + 1);
                }
                5 => {
                    bad.push(0);
                    if g.r.chance(1, 2) {
                        bad.push(len - 1);
                    }
                }
                _ => {
                    for _ in 0..g.r.range(1, 6) {
                        bad.push(g.r.below(len as u64) as usize);
                    }
                }
            }
        }
        let s = g.dna_with(len, lower, &bad);
        let seed = g.seed();
        let force = g.r.chance(1, 2);
        g.emit("dna", "dna", k, seed, force, false, &s);
        // its reverse complement (all-ACGT sequences give the same multiset; checked by `addseq`)
        if bad.is_empty() && lower == 0 && g.r.chance(1, 3) {
            let rc = revcomp(&s);
            g.emit("dna-rc", "dna", k, seed, force, false, &rc);
        }
    }
    // ---- protein family, protein input
    for _ in 0..(1100 * mul) {
        let mol = *g.r.pick(&MOLS[1..]);
        let k = prot_k(&mut g.r);
        let kk = k / 3;
        let len = match g.r.below(6) {
            0 => g.r.below(kk + 2) as usize,
            1 => kk as usize,
            2 => g.r.below(3 * kk + 8) as usize,
            _ => g.r.range(kk, 3 * kk + 7) as usize,
        };
        let s: Vec<u8> = (0..len).map(|_| g.residue()).collect();
        let seed = g.seed();
        let force = g.r.chance(1, 4);
        g.emit("prot", mol, k, seed, force, true, &s);
    }
    // ---- protein family, DNA input (six-frame translation)
    for _ in 0..(1300 * mul) {
        let mol = *g.r.pick(&MOLS[1..]);
        let k = prot_k(&mut g.r);
        let t = 3 * (k / 3);
        let len = match g.r.below(6) {
            0 => g.r.below(t + 3) as usize,
            1 => g.r.range(t.saturating_sub(2), t + 3) as usize, // the len >= 3*(k/3) boundary
            2 => g.r.below(3 * k + 8) as usize,
            _ => g.r.range(t, 3 * k + 7) as usize,
        };
        let lower = *g.r.pick(&[0u64, 0, 10, 100]);
        let mut s = g.dna(len, lower);
        // N (wobble), other letters, high bytes at random offsets
        let nbad = match g.r.below(4) { 0 => 0, 1 => 1, _ => g.r.below(1 + len as u64 / 3) };
        for _ in 0..nbad {
            if len > 0 {
                let p = g.r.below(len as u64) as usize;
                s[p] = g.bad();
            }
        }
        let seed = g.seed();
        let force = g.r.chance(1, 2);
        g.emit("translate", mol, k, seed, force, false, &s);
    }
    // ---- DNA sketch given protein input (InvalidHashFunction), all four with the other flag
    for _ in 0..(120 * mul) {
        let k = dna_k(&mut g.r);
        let len = g.r.below(3 * k + 8) as usize;
        let s = g.dna(len, 0);
        let seed = g.seed();
        let force = g.r.chance(1, 2);
        g.emit("dna-as-protein", "dna", k, seed, force, true, &s);
    }
    // ---- degenerate k: DNA k = 0 and protein input with k < 3 (window of 0 residues)
    for _ in 0..(40 * mul) {
        let len = g.r.below(8) as usize;
        let s = g.dna(len, 0);
        g.emit("k0", "dna", 0, 42, false, false, &s);
        let mol = *g.r.pick(&MOLS[1..]);
        let k = g.r.below(3);
        g.emit("k0-prot", mol, k, 42, false, true, &s);
    }
    // ---- Signature::add_sequence / add_protein over several sketches
    for _ in 0..(500 * mul) {
        let isprot = g.r.chance(1, 3);
        let kd = [dna_k(&mut g.r), dna_k(&mut g.r)];
        let kp = [3 * g.r.range(1, 11), prot_k(&mut g.r)];
        let mols: &[&'static str] = if isprot && !g.r.chance(1, 12) { &MOLS[1..] } else { &MOLS };
        let n = g.r.range(2, 5);
        let specs = g.sig_specs(mols, &kd, &kp, n);
        let kmax = *kd.iter().chain(kp.iter()).max().unwrap();
        let seq: Vec<u8> = if isprot {
            let len = g.r.below(kmax + 8) as usize;
            (0..len).map(|_| g.residue()).collect()
        } else {
            let len = match g.r.below(4) {
                0 => g.r.below(kmax + 3) as usize,
                _ => g.r.range(kmax / 2, 2 * kmax + 30) as usize,
            };
            let lower = *g.r.pick(&[0u64, 0, 10, 100]);
            let mut s = g.dna(len, lower);
            if len > 0 {
                for _ in 0..(match g.r.below(3) { 0 => g.r.range(1, 3), _ => 0 }) {
                    let p = g.r.below(len as u64) as usize;
                    s[p] = g.bad();
                }
            }
            s
        };
        let force = g.r.chance(1, 2);
        g.o.case("sig");
        g.nseq += 1;
        g.o.op(&format!("sigadd 0 {} {} {} {}", force as u8, isprot as u8, specs, hex(&seq)));
    }
    while let Some(l) = g.longq.pop() {
        g.emit_long(&l);
    }
    let n = g.nseq;
    drop(g);
    eprintln!("c02 gen: {} sequences", n);
}

// ------------------------------------------------------------------------------------------ exec

fn variant(e: &Error) -> String {
    let d = format!("{:?}", e);
    d.split(|c: char| !c.is_alphanumeric()).next().unwrap_or("").to_string()
}

fn hf(mol: &str) -> HashFunctions {
    match mol {
        "dna" => HashFunctions::Murmur64Dna,
        "protein" => HashFunctions::Murmur64Protein,
        "dayhoff" => HashFunctions::Murmur64Dayhoff,
        "hp" => HashFunctions::Murmur64Hp,
        _ => panic!("mol"),
    }
}

/// records the `add_hash` calls of the real (default) `add_sequence` / `add_protein`
struct Recorder {
    k: usize,
    seed: u64,
    hf: HashFunctions,
    got: Vec<u64>,
}
impl SigsTrait for Recorder {
    fn size(&self) -> usize {
        self.got.len()
    }
    fn to_vec(&self) -> Vec<u64> {
        self.got.clone()
    }
    fn ksize(&self) -> usize {
        self.k
    }
    fn check_compatible(&self, _: &Self) -> Result<(), Error> {
        Ok(())
    }
    fn seed(&self) -> u64 {
        self.seed
    }
    fn hash_function(&self) -> HashFunctions {
        self.hf.clone()
    }
    fn add_hash(&mut self, hash: u64) {
        self.got.push(hash);
    }
}

/// count, xor, wrapping sum, order-sensitive polynomial, first and last (up to) 8 values
fn digest(v: &[u64]) -> String {
    let mut x = 0u64;
    let mut s = 0u64;
    let mut p = 0u64;
    for &h in v {
        x ^= h;
        s = s.wrapping_add(h);
        p = p.wrapping_mul(0x0000_0100_0000_01b3).wrapping_add(h);
    }
    let m = v.len().min(8);
    format!(
        "n={} x={} s={} p={} f={} l={}",
        v.len(),
        x,
        s,
        p,
        show_nats(v[..m].iter().cloned()),
        show_nats(v[v.len() - m..].iter().cloned())
    )
}

/// per-case state: the current sequence (`seq <hex>`; `@` refers to it)
struct S {
    cur: Vec<u8>,
}

fn seq_arg(st: &S, w: &str) -> Vec<u8> {
    if w == "@" {
        st.cur.clone()
    } else {
        unhex(w)
    }
}

/// `ty:num:scaled:mol:k:seed`
fn build_sketch(spec: &str) -> Sketch {
    let f: Vec<&str> = spec.split(':').collect();
    let num: u32 = f[1].parse().unwrap();
    let scaled: u64 = f[2].parse().unwrap();
    let m = hf(f[3]);
    let k: u32 = f[4].parse().unwrap();
    let seed: u64 = f[5].parse().unwrap();
    if f[0] == "t" {
        Sketch::LargeMinHash(KmerMinHashBTree::new(scaled, k, m, seed, false, num))
    } else {
        Sketch::MinHash(KmerMinHash::new(scaled, k, m, seed, false, num))
    }
}

fn sketch_mins(sk: &Sketch) -> Vec<u64> {
    match sk {
        Sketch::MinHash(mh) => mh.mins(),
        Sketch::LargeMinHash(mh) => mh.mins(),
        _ => panic!("sketch type"),
    }
}

fn step(st: &mut S, ws: &[&str]) -> String {
    match ws[0] {
        "case" => "ok".into(),
        "selfcheck" => "ok".into(),
        "seq" => {
            st.cur = unhex(ws[1]);
            format!("len={}", st.cur.len())
        }
        "murmur" => sourmash::_hash_murmur(&unhex(ws[2]), ws[1].parse().unwrap()).to_string(),
        "codon" => match translate_codon(&unhex(ws[1])) {
            Ok(v) => v.to_string(),
            Err(e) => format!("err {}", variant(&e)),
        },
        "rc" => hex(&revcomp(&unhex(ws[1]))),
        "toaa" => {
            let m = hf(ws[1]);
            match to_aa(&unhex(ws[2]), m.dayhoff(), m.hp()) {
                Ok(v) => hex(&v),
                Err(e) => format!("err {}", variant(&e)),
            }
        }
        "s2h" | "feed" | "addseq" | "ds2h" | "dfeed" | "daddseq" => {
            let dg = ws[0].starts_with('d');
            let op = if dg { &ws[0][1..] } else { ws[0] };
            // daddseq carries the container type and the num bound in front
            let (tree, num, a) = if ws[0] == "daddseq" {
                (ws[1] == "t", ws[2].parse::<u32>().unwrap(), &ws[3..])
            } else {
                (false, 0u32, &ws[1..])
            };
            let m = hf(a[0]);
            let k: usize = a[1].parse().unwrap();
            let seed: u64 = a[2].parse().unwrap();
            let force = a[3] == "1";
            let isprot = a[4] == "1";
            let seq = seq_arg(st, a[5]);
            let show = |v: Vec<u64>| if dg { digest(&v) } else { show_nats(v) };
            match op {
                "s2h" => {
                    let mut vals: Vec<u64> = vec![];
                    let mut end = "end".to_string();
                    for it in SeqToHashes::new(&seq, k, force, isprot, m, seed) {
                        match it {
                            Ok(h) => vals.push(h),
                            Err(e) => {
                                end = format!("E:{}", variant(&e));
                                break;
                            }
                        }
                    }
                    if dg {
                        format!("{}|{}", digest(&vals), end)
                    } else {
                        let mut out: Vec<String> = vals.iter().map(|h| h.to_string()).collect();
                        if end != "end" {
                            out.push(end);
                        }
                        if out.is_empty() { "-".into() } else { out.join(",") }
                    }
                }
                "feed" => {
                    let mut r = Recorder { k, seed, hf: m, got: vec![] };
                    let res = if isprot { r.add_protein(&seq) } else { r.add_sequence(&seq, force) };
                    let tail = match res {
                        Ok(()) => "ok".to_string(),
                        Err(e) => format!("err {}", variant(&e)),
                    };
                    format!("{}|{}", show(r.got), tail)
                }
                _ => {
                    let scaled = if num == 0 { 1 } else { 0 };
                    let (res, mins) = if tree {
                        let mut mh = KmerMinHashBTree::new(scaled, k as u32, m, seed, false, num);
                        let res = if isprot { mh.add_protein(&seq) } else { mh.add_sequence(&seq, force) };
                        (res, mh.mins())
                    } else {
                        let mut mh = KmerMinHash::new(scaled, k as u32, m, seed, false, num);
                        let res = if isprot { mh.add_protein(&seq) } else { mh.add_sequence(&seq, force) };
                        (res, mh.mins())
                    };
                    match res {
                        Ok(()) => show(mins),
                        Err(e) => format!("err {}", variant(&e)),
                    }
                }
            }
        }
        "sigadd" => {
            let dg = ws[1] == "1";
            let force = ws[2] == "1";
            let isprot = ws[3] == "1";
            let seq = seq_arg(st, ws[5]);
            let mut sig = Signature::default();
            for sp in ws[4].split(';') {
                sig.push(build_sketch(sp));
            }
            let res = if isprot { sig.add_protein(&seq) } else { sig.add_sequence(&seq, force) };
            match res {
                Ok(()) => format!(
                    "ok {}",
                    sig.sketches()
                        .iter()
                        .map(|sk| {
                            let v = sketch_mins(sk);
                            if dg { digest(&v) } else { show_nats(v) }
                        })
                        .collect::<Vec<_>>()
                        .join("|")
                ),
                Err(e) => format!("err {}", variant(&e)),
            }
        }
        "capi" => {
            use sourmash::ffi::HashFunctions as F;
            let m = match ws[1] {
                "dna" => F::Murmur64Dna,
                "protein" => F::Murmur64Protein,
                "dayhoff" => F::Murmur64Dayhoff,
                _ => F::Murmur64Hp,
            };
            let k: u32 = ws[2].parse().unwrap();
            let seed: u64 = ws[3].parse().unwrap();
            let force = ws[4] == "1";
            let zeroes = ws[5] == "1";
            let isprot = ws[6] == "1";
            let seq = seq_arg(st, ws[7]);
            unsafe {
                sourmash_err_clear();
                let mh = kmerminhash_new(1, k, m, seed, false, 0);
                let mut size: usize = 0;
                let p = kmerminhash_seq_to_hashes(
                    mh,
                    seq.as_ptr() as *const std::os::raw::c_char,
                    seq.len(),
                    force,
                    zeroes,
                    isprot,
                    &mut size,
                );
                let code = sourmash_err_get_last_code() as u32;
                let r = if code != 0 {
                    sourmash_err_clear();
                    format!("err {}", code)
                } else if p.is_null() {
                    // landingpad caught a panic (no sourmash panic hook installed here: no error code)
                    "PANIC".to_string()
                } else {
                    let v: Vec<u64> = std::slice::from_raw_parts(p, size).to_vec();
                    kmerminhash_slice_free(p as *mut u64, size);
                    show_nats(v)
                };
                kmerminhash_free(mh);
                r
            }
        }
        _ => "bad-op".into(),
    }
}

fn main() {
    let a = args();
    match a.mode.as_str() {
        "dump" => dump(),
        "gen" => gen(&a),
        "exec" => exec_loop(|| S { cur: vec![] }, step),
        _ => panic!("mode"),
    }
}
