//! C02: sequence k-mers hash to the documented canonical values in every mode.
//!
//! `dump`  — behavioural extraction of the finite tables (used by translator/c02.py)
//! `gen`   — request lines; `exec` — answers them by running the real crate.
//!
//! ops (bytes always in hex, `-` = empty):
//!   s2h    <mol> <k> <seed> <force> <isprotein> <hexseq>  raw `SeqToHashes` item stream
//!   feed   <mol> <k> <seed> <force> <isprotein> <hexseq>  the `add_hash` calls the real default
//!                                                         `add_sequence`/`add_protein` make, in order
//!   addseq <mol> <k> <seed> <force> <isprotein> <hexseq>  mins() of a scaled=1 KmerMinHash
//!   capi   <mol> <k> <seed> <force> <zeroes> <isprotein> <hexseq>  kmerminhash_seq_to_hashes
//!   murmur <seed> <hexbytes>     codon <hex>     toaa <mol> <hex>     rc <hex>
use sourmash::encodings::{aa_to_dayhoff, aa_to_hp, revcomp, to_aa, translate_codon, HashFunctions, VALID};
use sourmash::ffi::minhash::{
    kmerminhash_free, kmerminhash_new, kmerminhash_seq_to_hashes, kmerminhash_slice_free,
};
use sourmash::ffi::utils::{sourmash_err_clear, sourmash_err_get_last_code};
use sourmash::signature::{SeqToHashes, SigsTrait};
use sourmash::sketch::minhash::KmerMinHash;
use sourmash::Error;
use std::io::Write;
use verif_harness::*;

// ------------------------------------------------------------------------------------------ dump

fn codon_res(c: &[u8]) -> String {
    match translate_codon(c) {
        Ok(v) => v.to_string(),
        Err(e) => format!("err:{}", variant(&e)),
    }
}

fn dump() {
    let out = std::io::stdout();
    let mut w = std::io::BufWriter::new(out.lock());
    let row = |name: &str, f: &dyn Fn(u8) -> u64| -> String {
        format!(
            "{} {}",
            name,
            (0..=255u8).map(|b| f(b).to_string()).collect::<Vec<_>>().join(",")
        )
    };
    writeln!(w, "{}", row("dayhoff", &|b| aa_to_dayhoff(b) as u64)).unwrap();
    writeln!(w, "{}", row("hp", &|b| aa_to_hp(b) as u64)).unwrap();
    writeln!(w, "{}", row("complement", &|b| {
        let r = revcomp(&[b]);
        assert_eq!(r.len(), 1);
        r[0] as u64
    }))
    .unwrap();
    writeln!(w, "{}", row("valid", &|b| VALID[b as usize] as u64)).unwrap();
    // revcomp reverses: one asymmetric probe per length 0..4 so that the `rev()` is observed too
    writeln!(w, "revcomp_probe {}", hex(&revcomp(b"AACGTN\x00z"))).unwrap();
    // translate_codon on EVERY 3-byte input: the entries that are not X are the behavioural CODONTABLE
    let mut nonx = 0u64;
    for a in 0..=255u8 {
        for b in 0..=255u8 {
            for c in 0..=255u8 {
                match translate_codon(&[a, b, c]) {
                    Ok(b'X') => {}
                    Ok(v) => {
                        nonx += 1;
                        writeln!(w, "codon3 {} {} {} {}", a, b, c, v).unwrap();
                    }
                    Err(e) => writeln!(w, "codon3err {} {} {} {}", a, b, c, variant(&e)).unwrap(),
                }
            }
        }
    }
    writeln!(w, "codon3_nonx {}", nonx).unwrap();
    // the 125 codons over {A,C,G,T,N} with their value (X included), and all 1-/2-byte inputs over it
    let al = b"ACGTN";
    for &a in al {
        writeln!(w, "codon1 {} {}", a, codon_res(&[a])).unwrap();
        for &b in al {
            writeln!(w, "codon2 {} {} {}", a, b, codon_res(&[a, b])).unwrap();
            for &c in al {
                writeln!(w, "codon125 {} {} {} {}", a, b, c, codon_res(&[a, b, c])).unwrap();
            }
        }
    }
    // every 1-byte input is X; every 2-byte input xy behaves as xyN
    let one_nonx = (0..=255u8).filter(|&a| translate_codon(&[a]).ok() != Some(b'X')).count();
    writeln!(w, "codon1_nonx {}", one_nonx).unwrap();
    let mut two_mismatch = 0u64;
    for a in 0..=255u8 {
        for b in 0..=255u8 {
            if codon_res(&[a, b]) != codon_res(&[a, b, b'N']) {
                two_mismatch += 1;
            }
        }
    }
    writeln!(w, "codon2_vs_xyN_mismatch {}", two_mismatch).unwrap();
    writeln!(w, "codonlen0 {}", codon_res(&[])).unwrap();
    writeln!(w, "codonlen4 {}", codon_res(b"ACGT")).unwrap();
    writeln!(w, "murmur_ACG_42 {}", sourmash::_hash_murmur(b"ACG", 42)).unwrap();
    w.flush().unwrap();
}

// ------------------------------------------------------------------------------------------- gen

const MOLS: [&str; 4] = ["dna", "protein", "dayhoff", "hp"];
const AAS: &[u8] = b"ACDEFGHIKLMNPQRSTVWY";

struct G {
    r: Rng,
    o: Out,
    nseq: u64,
}

impl G {
    fn seed(&mut self) -> u64 {
        match self.r.below(5) {
            0 => 0,
            1 | 2 => 42,
            3 => u64::MAX,
            _ => self.r.next(),
        }
    }
    /// a byte that is not one of ACGT after upper-casing
    fn bad(&mut self) -> u8 {
        match self.r.below(10) {
            0 | 1 | 2 => b'N',
            3 => b'n',
            4 => *self.r.pick(b"RYKMSWBDHVUXZ-.* \t\n0@[`{"),
            5 => *self.r.pick(b"rykmswbdhvux"),
            6 => self.r.below(0x20) as u8,
            7 => 0x7f,
            8 => *self.r.pick(&[0x80u8, 0xc3, 0xa9, 0xe2, 0x82, 0xac, 0xf0, 0xff, 0xfe, 0xc0, 0xbf]),
            _ => self.r.range(0x80, 0xff) as u8,
        }
    }
    fn base(&mut self, lower: u64) -> u8 {
        let b = *self.r.pick(b"ACGT");
        if self.r.chance(lower, 100) {
            b.to_ascii_lowercase()
        } else {
            b
        }
    }
    fn dna(&mut self, len: usize, lower: u64) -> Vec<u8> {
        (0..len).map(|_| self.base(lower)).collect()
    }
    fn residue(&mut self) -> u8 {
        match self.r.below(20) {
            0 => *self.r.pick(b"*XBZJUO"),
            1 => self.r.pick(AAS).to_ascii_lowercase(),
            2 => match self.r.below(4) {
                0 => *self.r.pick(b" -.0@[`{*"),
                1 => self.r.below(0x20) as u8,
                2 => *self.r.pick(&[0x80u8, 0xc3, 0xa9, 0xff]),
                _ => self.r.range(0x80, 0xff) as u8,
            },
            _ => *self.r.pick(AAS),
        }
    }
    /// one sequence = one case: the raw stream, the fed hashes, the sketch, the C API
    fn emit(&mut self, what: &str, mol: &str, k: u64, seed: u64, force: bool, isprot: bool, seq: &[u8]) {
        self.o.case(what);
        self.nseq += 1;
        let f = force as u8;
        let p = isprot as u8;
        let h = hex(seq);
        self.o.op(&format!("s2h {} {} {} {} {} {}", mol, k, seed, f, p, h));
        self.o.op(&format!("feed {} {} {} {} {} {}", mol, k, seed, f, p, h));
        self.o.op(&format!("addseq {} {} {} {} {} {}", mol, k, seed, f, p, h));
        // the C API truncates nothing (buffer + length), but the ksize is a u32 and the scaled 1
        let z = self.r.below(2);
        self.o.op(&format!("capi {} {} {} {} {} {} {}", mol, k, seed, f, z, p, h));
    }
    /// DNA sequence of length `len` with invalid bases at the given positions
    fn dna_with(&mut self, len: usize, lower: u64, bad_at: &[usize]) -> Vec<u8> {
        let mut s = self.dna(len, lower);
        for &p in bad_at {
            if p < len {
                s[p] = self.bad();
            }
        }
        s
    }
}

fn dna_k(r: &mut Rng) -> u64 {
    match r.below(6) {
        0 => r.range(1, 4),
        1 => *r.pick(&[21u64, 31, 32, 33, 51, 63, 64]),
        2 => r.range(1, 64),
        3 => r.range(5, 16),
        4 => *r.pick(&[1u64, 2, 3, 7, 8, 9, 15, 16, 17]),
        _ => r.range(1, 33),
    }
}
fn prot_k(r: &mut Rng) -> u64 {
    match r.below(5) {
        0 | 1 | 2 => 3 * r.range(1, 11),
        3 => r.range(3, 35), // non-multiples of 3 included
        _ => *r.pick(&[3u64, 4, 5, 6, 7, 8, 30, 31, 32, 33, 34, 35]),
    }
}

fn gen(a: &Args) {
    let thorough = a.tier == "thorough";
    let mul: u64 = if thorough { 25 } else { 1 };
    let mut g = G { r: Rng::new(a.seed), o: Out::new(), nseq: 0 };

    // ---- fixed vectors: murmur suite vector, the whole codon alphabet, table probes
    g.o.case("fixed");
    g.o.op("selfcheck");
    g.o.op(&format!("murmur 42 {}", hex(b"ACG")));
    g.o.op("murmur 0 -");
    g.o.op("murmur 42 -");
    let al = b"ACGTNacgtnX\x00\xc3\xff";
    for &x in al {
        g.o.op(&format!("codon {}", hex(&[x])));
        for &y in al {
            g.o.op(&format!("codon {}", hex(&[x, y])));
            for &z in al {
                g.o.op(&format!("codon {}", hex(&[x, y, z])));
            }
        }
    }
    g.o.op("codon -");
    g.o.op(&format!("codon {}", hex(b"ACGT")));
    let all: Vec<u8> = (0..=255u8).collect();
    g.o.op(&format!("rc {}", hex(&all)));
    g.o.op(&format!("rc {}", hex(b"AACGTN")));
    for m in ["protein", "dayhoff", "hp"] {
        // to_aa of a string whose codons are `X` + every byte twice: exercises the reduction tables
        g.o.op(&format!("toaa {} {}", m, hex(b"ATGGCCTAAGGNTTNNNNAC")));
    }

    // ---- murmur on random byte strings of length 0..64
    g.o.case("murmur");
    for i in 0..(1500 * mul) {
        if i % 300 == 299 {
            g.o.case("murmur");
        }
        let len = if i < 130 { (i / 2) as usize } else { g.r.below(65) as usize };
        let bs: Vec<u8> = (0..len).map(|_| g.r.next() as u8).collect();
        let s = g.seed();
        g.o.op(&format!("murmur {} {}", s, hex(&bs)));
    }
    // codons / to_aa / revcomp on random bytes
    g.o.case("tables");
    for i in 0..(600 * mul) {
        if i % 200 == 199 {
            g.o.case("tables");
        }
        let len = g.r.below(5) as usize;
        let bs: Vec<u8> = (0..len)
            .map(|_| if g.r.chance(4, 5) { *g.r.pick(b"ACGTN") } else { g.r.next() as u8 })
            .collect();
        g.o.op(&format!("codon {}", hex(&bs)));
        let len = g.r.below(20) as usize;
        let bs: Vec<u8> = (0..len)
            .map(|_| if g.r.chance(9, 10) { *g.r.pick(b"ACGTNacgtn") } else { g.r.next() as u8 })
            .collect();
        g.o.op(&format!("rc {}", hex(&bs)));
        let m = *g.r.pick(&["protein", "dayhoff", "hp"]);
        g.o.op(&format!("toaa {} {}", m, hex(&bs)));
    }

    // ---- DNA, systematic: one invalid base at every position, pairs at distance 1, k-1, k
    let ks: &[u64] = if thorough { &[1, 2, 3, 4, 5, 7, 16, 21, 31, 32, 33, 64] } else { &[1, 2, 3, 4, 5, 21] };
    for &k in ks {
        let ku = k as usize;
        let len = 2 * ku + 3;
        for force in [false, true] {
            for p in 0..len {
                let s = g.dna_with(len, 0, &[p]);
                g.emit("dna-one-bad", "dna", k, 42, force, false, &s);
            }
            for p in 0..len {
                for d in [1usize, ku.saturating_sub(1).max(1), ku, ku + 1] {
                    if force || p % 3 == 0 {
                        let s = g.dna_with(len + ku, 0, &[p, p + d]);
                        g.emit("dna-two-bad", "dna", k, 42, force, false, &s);
                    }
                }
            }
        }
    }
    // ---- DNA, random: lengths 0..3k+7, invalid bases relative to a window
    for _ in 0..(2200 * mul) {
        let k = dna_k(&mut g.r);
        let ku = k as usize;
        let len = match g.r.below(8) {
            0 => g.r.below(k + 2) as usize,                      // around / below k
            1 => ku,
            2 => ku + 1,
            3 => g.r.below(3 * k + 8) as usize,
            _ => g.r.range(k, 3 * k + 7) as usize,
        };
        let lower = *g.r.pick(&[0u64, 0, 10, 50, 100]);
        let mut bad: Vec<usize> = vec![];
        if len > 0 {
            match g.r.below(7) {
                0 | 1 => {}                                                    // all valid
                2 => bad.push(g.r.below(len as u64) as usize),
                3 => {
                    // relative to a window start w: w, w+k-1, w+k, and adjacent pairs
                    let w = g.r.below(len as u64) as usize;
                    for off in [0usize, ku - 1, ku, ku + 1, 1] {
                        if g.r.chance(1, 2) {
                            bad.push(w + off);
                        }
                    }
                }
                4 => {
                    let p = g.r.below(len as u64) as usize;
                    bad.push(p);
                    bad.push(p + 1);
                }
                5 => {
                    bad.push(0);
                    if g.r.chance(1, 2) {
                        bad.push(len - 1);
                    }
                }
                _ => {
                    for _ in 0..g.r.range(1, 6) {
                        bad.push(g.r.below(len as u64) as usize);
                    }
                }
            }
        }
        let s = g.dna_with(len, lower, &bad);
        let seed = g.seed();
        let force = g.r.chance(1, 2);
        g.emit("dna", "dna", k, seed, force, false, &s);
        // its reverse complement (all-ACGT sequences give the same multiset; checked by `addseq`)
        if bad.is_empty() && lower == 0 && g.r.chance(1, 3) {
            let rc = revcomp(&s);
            g.emit("dna-rc", "dna", k, seed, force, false, &rc);
        }
    }
    // ---- protein family, protein input
    for _ in 0..(1100 * mul) {
        let mol = *g.r.pick(&MOLS[1..]);
        let k = prot_k(&mut g.r);
        let kk = k / 3;
        let len = match g.r.below(6) {
            0 => g.r.below(kk + 2) as usize,
            1 => kk as usize,
            2 => g.r.below(3 * kk + 8) as usize,
            _ => g.r.range(kk, 3 * kk + 7) as usize,
        };
        let s: Vec<u8> = (0..len).map(|_| g.residue()).collect();
        let seed = g.seed();
        let force = g.r.chance(1, 4);
        g.emit("prot", mol, k, seed, force, true, &s);
    }
    // ---- protein family, DNA input (six-frame translation)
    for _ in 0..(1300 * mul) {
        let mol = *g.r.pick(&MOLS[1..]);
        let k = prot_k(&mut g.r);
        let t = 3 * (k / 3);
        let len = match g.r.below(6) {
            0 => g.r.below(t + 3) as usize,
            1 => g.r.range(t.saturating_sub(2), t + 3) as usize, // the len >= 3*(k/3) boundary
            2 => g.r.below(3 * k + 8) as usize,
            _ => g.r.range(t, 3 * k + 7) as usize,
        };
        let lower = *g.r.pick(&[0u64, 0, 10, 100]);
        let mut s = g.dna(len, lower);
        // N (wobble), other letters, high bytes at random offsets
        let nbad = match g.r.below(4) { 0 => 0, 1 => 1, _ => g.r.below(1 + len as u64 / 3) };
        for _ in 0..nbad {
            if len > 0 {
                let p = g.r.below(len as u64) as usize;
                s[p] = g.bad();
            }
        }
        let seed = g.seed();
        let force = g.r.chance(1, 2);
        g.emit("translate", mol, k, seed, force, false, &s);
    }
    // ---- DNA sketch given protein input (InvalidHashFunction), all four with the other flag
    for _ in 0..(120 * mul) {
        let k = dna_k(&mut g.r);
        let len = g.r.below(3 * k + 8) as usize;
        let s = g.dna(len, 0);
        let seed = g.seed();
        let force = g.r.chance(1, 2);
        g.emit("dna-as-protein", "dna", k, seed, force, true, &s);
    }
    // ---- degenerate k: DNA k = 0 and protein input with k < 3 (window of 0 residues)
    for _ in 0..(40 * mul) {
        let len = g.r.below(8) as usize;
        let s = g.dna(len, 0);
        g.emit("k0", "dna", 0, 42, false, false, &s);
        let mol = *g.r.pick(&MOLS[1..]);
        let k = g.r.below(3);
        g.emit("k0-prot", mol, k, 42, false, true, &s);
    }
    let n = g.nseq;
    drop(g);
    eprintln!("c02 gen: {} sequences", n);
}

// ------------------------------------------------------------------------------------------ exec

fn variant(e: &Error) -> String {
    let d = format!("{:?}", e);
    d.split(|c: char| !c.is_alphanumeric()).next().unwrap_or("").to_string()
}

fn hf(mol: &str) -> HashFunctions {
    match mol {
        "dna" => HashFunctions::Murmur64Dna,
        "protein" => HashFunctions::Murmur64Protein,
        "dayhoff" => HashFunctions::Murmur64Dayhoff,
        "hp" => HashFunctions::Murmur64Hp,
        _ => panic!("mol"),
    }
}

/// records the `add_hash` calls of the real (default) `add_sequence` / `add_protein`
struct Recorder {
    k: usize,
    seed: u64,
    hf: HashFunctions,
    got: Vec<u64>,
}
impl SigsTrait for Recorder {
    fn size(&self) -> usize {
        self.got.len()
    }
    fn to_vec(&self) -> Vec<u64> {
        self.got.clone()
    }
    fn ksize(&self) -> usize {
        self.k
    }
    fn check_compatible(&self, _: &Self) -> Result<(), Error> {
        Ok(())
    }
    fn seed(&self) -> u64 {
        self.seed
    }
    fn hash_function(&self) -> HashFunctions {
        self.hf.clone()
    }
    fn add_hash(&mut self, hash: u64) {
        self.got.push(hash);
    }
}

fn step(_: &mut (), ws: &[&str]) -> String {
    match ws[0] {
        "case" => "ok".into(),
        "selfcheck" => "ok".into(),
        "murmur" => sourmash::_hash_murmur(&unhex(ws[2]), ws[1].parse().unwrap()).to_string(),
        "codon" => match translate_codon(&unhex(ws[1])) {
            Ok(v) => v.to_string(),
            Err(e) => format!("err {}", variant(&e)),
        },
        "rc" => hex(&revcomp(&unhex(ws[1]))),
        "toaa" => {
            let m = hf(ws[1]);
            match to_aa(&unhex(ws[2]), m.dayhoff(), m.hp()) {
                Ok(v) => hex(&v),
                Err(e) => format!("err {}", variant(&e)),
            }
        }
        "s2h" | "feed" | "addseq" => {
            let m = hf(ws[1]);
            let k: usize = ws[2].parse().unwrap();
            let seed: u64 = ws[3].parse().unwrap();
            let force = ws[4] == "1";
            let isprot = ws[5] == "1";
            let seq = unhex(ws[6]);
            match ws[0] {
                "s2h" => {
                    let mut out: Vec<String> = vec![];
                    for it in SeqToHashes::new(&seq, k, force, isprot, m, seed) {
                        match it {
                            Ok(h) => out.push(h.to_string()),
                            Err(e) => {
                                out.push(format!("E:{}", variant(&e)));
                                break;
                            }
                        }
                    }
                    if out.is_empty() { "-".into() } else { out.join(",") }
                }
                "feed" => {
                    let mut r = Recorder { k, seed, hf: m, got: vec![] };
                    let res = if isprot { r.add_protein(&seq) } else { r.add_sequence(&seq, force) };
                    let tail = match res {
                        Ok(()) => "ok".to_string(),
                        Err(e) => format!("err {}", variant(&e)),
                    };
                    format!("{}|{}", show_nats(r.got), tail)
                }
                _ => {
                    let mut mh = KmerMinHash::new(1, k as u32, m, seed, false, 0);
                    let res = if isprot { mh.add_protein(&seq) } else { mh.add_sequence(&seq, force) };
                    match res {
                        Ok(()) => show_nats(mh.mins()),
                        Err(e) => format!("err {}", variant(&e)),
                    }
                }
            }
        }
        "capi" => {
            use sourmash::ffi::HashFunctions as F;
            let m = match ws[1] {
                "dna" => F::Murmur64Dna,
                "protein" => F::Murmur64Protein,
                "dayhoff" => F::Murmur64Dayhoff,
                _ => F::Murmur64Hp,
            };
            let k: u32 = ws[2].parse().unwrap();
            let seed: u64 = ws[3].parse().unwrap();
            let force = ws[4] == "1";
            let zeroes = ws[5] == "1";
            let isprot = ws[6] == "1";
            let seq = unhex(ws[7]);
            unsafe {
                sourmash_err_clear();
                let mh = kmerminhash_new(1, k, m, seed, false, 0);
                let mut size: usize = 0;
                let p = kmerminhash_seq_to_hashes(
                    mh,
                    seq.as_ptr() as *const std::os::raw::c_char,
                    seq.len(),
                    force,
                    zeroes,
                    isprot,
                    &mut size,
                );
                let code = sourmash_err_get_last_code() as u32;
                let r = if code != 0 {
                    sourmash_err_clear();
                    format!("err {}", code)
                } else if p.is_null() {
                    // landingpad caught a panic (no sourmash panic hook installed here: no error code)
                    "PANIC".to_string()
                } else {
                    let v: Vec<u64> = std::slice::from_raw_parts(p, size).to_vec();
                    kmerminhash_slice_free(p as *mut u64, size);
                    show_nats(v)
                };
                kmerminhash_free(mh);
                r
            }
        }
        _ => "bad-op".into(),
    }
}

fn main() {
    let a = args();
    match a.mode.as_str() {
        "dump" => dump(),
        "gen" => gen(&a),
        "exec" => exec_loop(|| (), step),
        _ => panic!("mode"),
    }
}
